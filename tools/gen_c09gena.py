"""Translator for C09: the three GENA request builders of event_handler.py -> lean/Upnp/Gen/C09Gena.lean.

For `async_subscribe`, `_async_do_resubscribe`, `async_unsubscribe` it extracts the `headers = {...}` display
(key list + the *shape* of every value expression, in particular of the TIMEOUT text), the HTTP method of the
`async_http_request` call and the default `timeout` argument.  Anything it does not recognise raises
Untranslatable."""
from __future__ import annotations

import ast
from pathlib import Path

import extract
from extract import Untranslatable

SRC = "async_upnp_client/event_handler.py"


def lean_chars(s: str) -> str:
    """a `List Char` literal (kernel-reducible, unlike String)"""
    out = []
    for ch in s:
        if ch == "'":
            out.append("'\\''")
        elif ch == "\\":
            out.append("'\\\\'")
        elif 32 <= ord(ch) < 127:
            out.append(f"'{ch}'")
        else:
            out.append("'\\u{%x}'" % ord(ch))
    return "[" + ",".join(out) + "]"


def find_method(tree: ast.Module, cls: str, name: str):
    for node in tree.body:
        if isinstance(node, ast.ClassDef) and node.name == cls:
            for f in node.body:
                if isinstance(f, (ast.AsyncFunctionDef, ast.FunctionDef)) and f.name == name:
                    return f
    raise Untranslatable(f"{cls}.{name} not found")


def _is_attr_chain(e, chain):
    """e is Name(chain[0]).chain[1]...."""
    for attr in reversed(chain[1:]):
        if not (isinstance(e, ast.Attribute) and e.attr == attr):
            return False
        e = e.value
    return isinstance(e, ast.Name) and e.id == chain[0]


def classify_timeout(e) -> str:
    """the expression added to "Second-" """
    if not (isinstance(e, ast.Call) and isinstance(e.func, ast.Name) and e.func.id == "str" and len(e.args) == 1 and not e.keywords):
        raise Untranslatable("TIMEOUT: expected str(...): " + ast.dump(e))
    a = e.args[0]
    if _is_attr_chain(a, ["timeout", "seconds"]):
        return ".timeoutSeconds"
    if isinstance(a, ast.Call) and not a.args and not a.keywords and _is_attr_chain(a.func, ["timeout", "total_seconds"]):
        return ".timeoutTotalFloat"
    if (isinstance(a, ast.Call) and isinstance(a.func, ast.Name) and a.func.id == "int" and len(a.args) == 1 and not a.keywords
            and isinstance(a.args[0], ast.Call) and not a.args[0].args and _is_attr_chain(a.args[0].func, ["timeout", "total_seconds"])):
        return ".timeoutTotalInt"
    raise Untranslatable("TIMEOUT: unknown seconds expression: " + ast.dump(a))


def classify(e) -> str:
    if isinstance(e, ast.Constant) and isinstance(e.value, str):
        return f"(.const {lean_chars(e.value)})"
    if isinstance(e, ast.BinOp) and isinstance(e.op, ast.Add) and isinstance(e.left, ast.Constant) and e.left.value == "Second-":
        return classify_timeout(e.right)
    if isinstance(e, ast.Name) and e.id == "sid":
        return ".sid"
    if (isinstance(e, ast.Attribute) and e.attr == "netloc" and isinstance(e.value, ast.Call)
            and isinstance(e.value.func, ast.Name) and e.value.func.id == "urlparse" and len(e.value.args) == 1
            and _is_attr_chain(e.value.args[0], ["service", "event_sub_url"])):
        return ".host"
    if isinstance(e, ast.JoinedStr):
        v = e.values
        if (len(v) == 3 and isinstance(v[0], ast.Constant) and v[0].value == "<" and isinstance(v[2], ast.Constant)
                and v[2].value == ">" and isinstance(v[1], ast.FormattedValue) and v[1].conversion == -1
                and v[1].format_spec is None and _is_attr_chain(v[1].value, ["self", "callback_url"])):
            return ".callback"
    raise Untranslatable("unknown header value expression: " + ast.dump(e))


def req_spec(fn, allow_sid: bool) -> str:
    hdrs = None
    method = None
    for node in ast.walk(fn):
        if isinstance(node, ast.Assign) and len(node.targets) == 1 and isinstance(node.targets[0], ast.Name) \
                and node.targets[0].id == "headers":
            if hdrs is not None or not isinstance(node.value, ast.Dict):
                raise Untranslatable(f"{fn.name}: headers assigned more than once / not a dict display")
            hdrs = node.value
        if isinstance(node, (ast.AugAssign, ast.Subscript)) and isinstance(getattr(node, "value", None), ast.Name) \
                and getattr(node.value, "id", "") == "headers" and isinstance(node, ast.Subscript) and isinstance(node.ctx, (ast.Store, ast.Del)):
            raise Untranslatable(f"{fn.name}: headers mutated after the display")
        if isinstance(node, ast.Call) and isinstance(node.func, ast.Attribute) and node.func.attr == "async_http_request":
            if method is not None:
                raise Untranslatable(f"{fn.name}: more than one request")
            a = node.args
            if not (len(a) == 3 and not node.keywords and isinstance(a[0], ast.Constant) and isinstance(a[0].value, str)
                    and _is_attr_chain(a[1], ["service", "event_sub_url"]) and isinstance(a[2], ast.Name) and a[2].id == "headers"):
                raise Untranslatable(f"{fn.name}: unexpected async_http_request arguments")
            method = a[0].value
    if hdrs is None or method is None:
        raise Untranslatable(f"{fn.name}: headers display / request call not found")
    rows = []
    seen = set()
    for k, v in zip(hdrs.keys, hdrs.values):
        if not (isinstance(k, ast.Constant) and isinstance(k.value, str)):
            raise Untranslatable(f"{fn.name}: non-constant header name")
        ku = k.value.upper()  # HTTP header names are case-insensitive; the harness upper-cases them too
        if ku in seen:
            raise Untranslatable(f"{fn.name}: duplicate header {ku}")
        seen.add(ku)
        c = classify(v)
        if c == ".sid" and not allow_sid:
            raise Untranslatable(f"{fn.name}: sid used where none is defined")
        rows.append(f"({lean_chars(ku)}, {c})")
    return "{ method := %s,\n    headers := [%s] }" % (lean_chars(method), ",\n      ".join(rows))


def default_timeout(fn) -> int:
    args = fn.args
    names = [a.arg for a in args.args]
    if "timeout" not in names:
        raise Untranslatable(f"{fn.name}: no timeout parameter")
    i = names.index("timeout") - (len(names) - len(args.defaults))
    if i < 0:
        raise Untranslatable(f"{fn.name}: timeout has no default")
    d = args.defaults[i]
    if (isinstance(d, ast.Call) and isinstance(d.func, ast.Name) and d.func.id == "timedelta" and not d.args
            and len(d.keywords) == 1 and d.keywords[0].arg == "seconds" and isinstance(d.keywords[0].value, ast.Constant)
            and isinstance(d.keywords[0].value.value, int)):
        return d.keywords[0].value.value
    raise Untranslatable(f"{fn.name}: unknown default timeout " + ast.dump(d))


def timeout_guarded(fn) -> bool:
    """is the `int(response_timeout[7:])` / `timedelta(seconds=…)` conversion of the granted TIMEOUT inside a `try` whose
    handlers catch ValueError and OverflowError without re-raising?  (exactly one such conversion per function)"""
    found = []

    def has_int_call(node) -> bool:
        # int(<text of the response header>[7:]) — not the int(timeout.total_seconds()) of the request builder
        return any(isinstance(n, ast.Call) and isinstance(n.func, ast.Name) and n.func.id == "int" and len(n.args) == 1
                   and isinstance(n.args[0], ast.Subscript) for n in ast.walk(node))

    def visit(node, guarded: bool):
        if isinstance(node, ast.Try):
            caught = set()
            swallow = True
            for h in node.handlers:
                names = []
                if h.type is None:
                    names = ["ValueError", "OverflowError"]
                elif isinstance(h.type, ast.Name):
                    names = [h.type.id]
                elif isinstance(h.type, ast.Tuple):
                    names = [e.id for e in h.type.elts if isinstance(e, ast.Name)]
                if "Exception" in names or "BaseException" in names:
                    names += ["ValueError", "OverflowError"]
                caught.update(names)
                if any(isinstance(n, ast.Raise) for n in ast.walk(h)):
                    swallow = False
            g = guarded or (swallow and {"ValueError", "OverflowError"} <= caught)
            for st in node.body:
                visit(st, g)
            for st in node.handlers + node.orelse + node.finalbody:
                visit(st, guarded)
            return
        if isinstance(node, ast.stmt) and not isinstance(node, (ast.If, ast.For, ast.While, ast.With, ast.AsyncWith, ast.AsyncFor,
                                                                   ast.FunctionDef, ast.AsyncFunctionDef)):
            if has_int_call(node):
                found.append(guarded)
            return
        for ch in ast.iter_child_nodes(node):
            visit(ch, guarded)

    for st in fn.body:
        visit(st, False)
    if len(found) != 1:
        raise Untranslatable(f"{fn.name}: expected exactly one int(...) conversion of the granted TIMEOUT, found {len(found)}")
    return found[0]


@extract.generator("C09Gena")
def gen(repo: Path) -> str:
    tree = extract.parse(repo, SRC)
    sub = find_method(tree, "UpnpEventHandler", "async_subscribe")
    ren = find_method(tree, "UpnpEventHandler", "_async_do_resubscribe")
    uns = find_method(tree, "UpnpEventHandler", "async_unsubscribe")
    res = find_method(tree, "UpnpEventHandler", "async_resubscribe")
    out = extract.HEADER.format(src=SRC)
    out += "import Upnp.Model.C09Base\nnamespace Upnp.Gen.C09Gena\nopen Upnp.C09\n\n"
    out += "/-- async_subscribe: the initial SUBSCRIBE -/\ndef subscribeReq : ReqSpec :=\n  " + req_spec(sub, False) + "\n\n"
    out += "/-- _async_do_resubscribe: the renewal -/\ndef renewReq : ReqSpec :=\n  " + req_spec(ren, True) + "\n\n"
    out += "/-- async_unsubscribe -/\ndef unsubReq : ReqSpec :=\n  " + req_spec(uns, True) + "\n\n"
    out += f"def defaultTimeoutSubscribe : Int := {default_timeout(sub)}\n"
    out += f"def defaultTimeoutResubscribe : Int := {default_timeout(res)}\n"
    out += "\n/-- the conversion of the granted TIMEOUT header is guarded: ValueError / OverflowError keep the requested timeout -/\n"
    out += f"def subscribeTimeoutGuarded : Bool := {'true' if timeout_guarded(sub) else 'false'}\n"
    out += f"def renewTimeoutGuarded : Bool := {'true' if timeout_guarded(ren) else 'false'}\n"
    out += "\nend Upnp.Gen.C09Gena\n"
    return out
