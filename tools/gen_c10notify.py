"""Translator for C10/C11: the header ladder of `UpnpEventHandler.handle_notify` -> lean/Upnp/Gen/C10Notify.lean.
(The data-type table the NOTIFY model converts with is C08's: lean/Upnp/Gen/C08Types.lean.)"""
from __future__ import annotations

import ast
from http import HTTPStatus
from pathlib import Path

import extract
from extract import Untranslatable
from gen_c09gena import find_method, lean_chars

SRC = "async_upnp_client/event_handler.py"
CONST = "async_upnp_client/const.py"


def status_of(e) -> int:
    if isinstance(e, ast.Attribute) and isinstance(e.value, ast.Name) and e.value.id == "HTTPStatus":
        try:
            return int(HTTPStatus[e.attr])
        except KeyError:
            pass
    raise Untranslatable("unknown status expression " + ast.dump(e))


def cond(e) -> str:
    if isinstance(e, ast.Compare) and len(e.ops) == 1 and len(e.comparators) == 1:
        op, right = e.ops[0], e.comparators[0]
        if (isinstance(op, ast.NotIn) and isinstance(e.left, ast.Constant) and isinstance(e.left.value, str)
                and isinstance(right, ast.Name) and right.id == "headers"):
            return f".missing {lean_chars(e.left.value.upper())}"
        if (isinstance(op, ast.NotEq) and isinstance(e.left, ast.Subscript) and isinstance(e.left.value, ast.Name)
                and e.left.value.id == "headers" and isinstance(e.left.slice, ast.Constant) and isinstance(e.left.slice.value, str)
                and isinstance(right, ast.Constant) and isinstance(right.value, str)):
            return f".differs {lean_chars(e.left.slice.value.upper())} {lean_chars(right.value)}"
    raise Untranslatable("unknown header test " + ast.dump(e))


def disjuncts(test):
    if isinstance(test, ast.BoolOp) and isinstance(test.op, ast.Or):
        return [cond(v) for v in test.values]
    return [cond(test)]


def ladder(fn):
    """leading `if <header tests>: return HTTPStatus.X` statements; then `sid = headers["SID"]`"""
    body = list(fn.body)
    if body and isinstance(body[0], ast.Expr) and isinstance(body[0].value, ast.Constant):
        body = body[1:]
    rungs = []
    i = 0
    while i < len(body) and isinstance(body[i], ast.If):
        st = body[i]
        if st.orelse or len(st.body) != 1 or not isinstance(st.body[0], ast.Return):
            break
        try:
            ds = disjuncts(st.test)
        except Untranslatable:
            break
        rungs.append((ds, status_of(st.body[0].value)))
        i += 1
    if not rungs:
        raise Untranslatable("handle_notify does not start with header tests")
    nxt = body[i] if i < len(body) else None
    tgt = nxt.targets[0] if isinstance(nxt, ast.Assign) else getattr(nxt, "target", None)
    val = getattr(nxt, "value", None)
    if not (isinstance(tgt, ast.Name) and tgt.id == "sid" and isinstance(val, ast.Subscript) and isinstance(val.value, ast.Name)
            and val.value.id == "headers" and isinstance(val.slice, ast.Constant) and val.slice.value == "SID"):
        raise Untranslatable("expected `sid = headers[\"SID\"]` right after the header tests")
    returns = [status_of(n.value) for n in sorted((n for n in ast.walk(fn) if isinstance(n, ast.Return) and n.value is not None), key=lambda n: (n.lineno, n.col_offset))]
    rest = returns[len(rungs):]
    if len(rest) != 2:
        raise Untranslatable(f"expected two more returns (backlog, done), found {len(rest)}")
    return rungs, rest[0], rest[1]


@extract.generator("C10Notify")
def gen(repo: Path) -> str:
    fn = find_method(extract.parse(repo, SRC), "UpnpEventHandler", "handle_notify")
    rungs, backlog, done = ladder(fn)
    out = extract.HEADER.format(src=SRC)
    out += "import Upnp.Model.C10Base\nnamespace Upnp.Gen.C10Notify\nopen Upnp.C09 Upnp.C10\n\n"
    out += "/-- handle_notify: leading header tests (disjuncts, status returned when one holds) -/\n"
    out += "def notifyLadder : List (List NCond × Nat) :=\n  [" + ",\n   ".join(
        "([" + ", ".join(ds) + f"], {st})" for ds, st in rungs) + "]\n\n"
    out += f"/-- status returned when the SID is not routed (stored in the backlog) -/\ndef backlogStatus : Nat := {backlog}\n"
    out += f"/-- status returned after the event was applied -/\ndef doneStatus : Nat := {done}\n\n"
    out += "\nend Upnp.Gen.C10Notify\n"
    return out
