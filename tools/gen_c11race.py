"""Translator for C11: the suspension points of the code the event-driven model treats as atomic -> lean/Upnp/Gen/C11Race.lean.

The model's `respond` event runs the tail of `async_subscribe` (from registering the SID to `return`) to completion and its `notify`
event runs `handle_notify` to completion.  That is right only if (a) `handle_notify` contains no `await` at all and (b) the only
`await` after `self._subscriptions[sid] = service` in `async_subscribe` is the replay's `await self.handle_notify(...)`.  Both facts
are read from the source here and pinned by `C11.atomicity_pinned`.  Also read: the notify server in front of the handler
(`aiohttp.AiohttpNotifyServer._handle_request`) only forwards (pinned by `C11.notify_server_forwards_pinned`)."""
from __future__ import annotations

import ast
from pathlib import Path

import extract
from extract import Untranslatable
from gen_c09gena import find_method

SRC = "async_upnp_client/event_handler.py"


def awaits(node):
    return [n for n in ast.walk(node) if isinstance(n, (ast.Await, ast.AsyncFor, ast.AsyncWith))]


def is_handle_notify(aw) -> bool:
    v = getattr(aw, "value", None)
    return (isinstance(aw, ast.Await) and isinstance(v, ast.Call) and isinstance(v.func, ast.Attribute) and v.func.attr == "handle_notify"
            and isinstance(v.func.value, ast.Name) and v.func.value.id == "self")


AIO = "async_upnp_client/aiohttp.py"


def _is_log_stmt(st) -> bool:
    """`_LOGGER….debug(...)` / `…isEnabledFor` bookkeeping — no effect on the request"""
    if isinstance(st, ast.Expr) and isinstance(st.value, ast.Constant):
        return True
    if isinstance(st, ast.Expr) and isinstance(st.value, ast.Call) and isinstance(st.value.func, ast.Attribute) \
            and st.value.func.attr in ("debug", "info", "warning", "error") and isinstance(st.value.func.value, ast.Name) \
            and st.value.func.value.id.startswith("_LOGGER"):
        return True
    if isinstance(st, ast.Assign) and len(st.targets) == 1 and isinstance(st.targets[0], ast.Name) and st.targets[0].id == "log_traffic":
        return True
    if isinstance(st, ast.If) and isinstance(st.test, ast.Name) and st.test.id == "log_traffic" and not st.orelse:
        return all(_is_log_stmt(x) for x in st.body)
    return False


def _attr(e, base, attr) -> bool:
    return isinstance(e, ast.Attribute) and e.attr == attr and isinstance(e.value, ast.Name) and e.value.id == base


def _response_status(e):
    """aiohttp.web.Response(status=<expr>) -> <expr>"""
    if isinstance(e, ast.Call) and isinstance(e.func, ast.Attribute) and e.func.attr == "Response" and not e.args \
            and len(e.keywords) == 1 and e.keywords[0].arg == "status":
        return e.keywords[0].value
    return None


def notify_server_forwards(repo: Path) -> bool:
    """`AiohttpNotifyServer._handle_request` does nothing but: read headers and body, answer 405 to a method other than NOTIFY,
    forward (headers, body) to `event_handler.handle_notify` and answer with the status it returns (logging aside)."""
    fn = find_method(extract.parse(repo, AIO), "AiohttpNotifyServer", "_handle_request")
    seen = []
    for st in fn.body:
        if _is_log_stmt(st):
            continue
        if isinstance(st, ast.Assign) and len(st.targets) == 1 and isinstance(st.targets[0], ast.Name):
            name, v = st.targets[0].id, st.value
            if name == "headers" and _attr(v, "request", "headers"):
                seen.append("headers"); continue
            if name == "body" and isinstance(v, ast.Await) and isinstance(v.value, ast.Call) and not v.value.args \
                    and _attr(v.value.func, "request", "text"):
                seen.append("body"); continue
            if name == "status" and isinstance(v, ast.Await) and isinstance(v.value, ast.Call) \
                    and isinstance(v.value.func, ast.Attribute) and v.value.func.attr == "handle_notify" \
                    and _attr(v.value.func.value, "self", "event_handler") and not v.value.keywords \
                    and [getattr(a, "id", None) for a in v.value.args] == ["headers", "body"]:
                seen.append("forward"); continue
            return False
        if isinstance(st, ast.If) and not st.orelse and isinstance(st.test, ast.Compare) and len(st.test.ops) == 1 \
                and isinstance(st.test.ops[0], ast.NotEq) and _attr(st.test.left, "request", "method") \
                and isinstance(st.test.comparators[0], ast.Constant) and st.test.comparators[0].value == "NOTIFY":
            rest = [x for x in st.body if not _is_log_stmt(x)]
            if len(rest) == 1 and isinstance(rest[0], ast.Return):
                code = _response_status(rest[0].value)
                if isinstance(code, ast.Constant) and code.value == 405:
                    seen.append("guard"); continue
            return False
        if isinstance(st, ast.Return):
            code = _response_status(st.value)
            if isinstance(code, ast.Name) and code.id == "status":
                seen.append("return"); continue
            return False
        return False
    return seen in (["headers", "body", "guard", "forward", "return"], ["body", "headers", "guard", "forward", "return"])


@extract.generator("C11Race")
def gen(repo: Path) -> str:
    tree = extract.parse(repo, SRC)
    hn = find_method(tree, "UpnpEventHandler", "handle_notify")
    sub = find_method(tree, "UpnpEventHandler", "async_subscribe")
    reg_line = None
    for n in ast.walk(sub):
        if isinstance(n, ast.Assign) and len(n.targets) == 1 and isinstance(n.targets[0], ast.Subscript):
            t = n.targets[0]
            if isinstance(t.value, ast.Attribute) and t.value.attr == "_subscriptions":
                reg_line = n.lineno if reg_line is None else min(reg_line, n.lineno)
    if reg_line is None:
        raise Untranslatable("async_subscribe: registration `self._subscriptions[sid] = service` not found")
    tail = [a for a in awaits(sub) if a.lineno > reg_line]
    other = [a for a in tail if not is_handle_notify(a)]
    out = extract.HEADER.format(src=SRC)
    out += "namespace Upnp.Gen.C11Race\n\n"
    out += "/-- number of suspension points (`await`, `async for`, `async with`) inside `handle_notify` -/\n"
    out += f"def handleNotifyAwaits : Nat := {len(awaits(hn))}\n\n"
    out += "/-- suspension points of `async_subscribe` after the SID is registered: the replay's `await self.handle_notify(…)` -/\n"
    out += f"def tailReplayAwaits : Nat := {len(tail) - len(other)}\n"
    out += "/-- … and any other (each one is a point where a NOTIFY can overtake the replay) -/\n"
    out += f"def tailOtherAwaits : Nat := {len(other)}\n"
    out += "\n/-- `AiohttpNotifyServer._handle_request` only forwards: headers and body of a NOTIFY go to `handle_notify` unchanged and\n"
    out += "    its status is the answer (405 for other methods; logging aside) -/\n"
    out += f"def notifyServerForwards : Bool := {'true' if notify_server_forwards(repo) else 'false'}\n"
    out += "\nend Upnp.Gen.C11Race\n"
    return out
