"""Translator for C11: the suspension points of the code the event-driven model treats as atomic -> lean/Upnp/Gen/C11Race.lean.

The model's `respond` event runs the tail of `async_subscribe` (from registering the SID to `return`) to completion and its `notify`
event runs `handle_notify` to completion.  That is right only if (a) `handle_notify` contains no `await` at all and (b) the only
`await` after `self._subscriptions[sid] = service` in `async_subscribe` is the replay's `await self.handle_notify(...)`.  Both facts
are read from the source here and pinned by `C11.atomicity_pinned`."""
from __future__ import annotations

import ast
from pathlib import Path

import extract
from extract import Untranslatable
from gen_c09gena import find_method

SRC = "async_upnp_client/event_handler.py"


def awaits(node):
    return [n for n in ast.walk(node) if isinstance(n, (ast.Await, ast.AsyncFor, ast.AsyncWith))]


def is_handle_notify(aw) -> bool:
    v = getattr(aw, "value", None)
    return (isinstance(aw, ast.Await) and isinstance(v, ast.Call) and isinstance(v.func, ast.Attribute) and v.func.attr == "handle_notify"
            and isinstance(v.func.value, ast.Name) and v.func.value.id == "self")


@extract.generator("C11Race")
def gen(repo: Path) -> str:
    tree = extract.parse(repo, SRC)
    hn = find_method(tree, "UpnpEventHandler", "handle_notify")
    sub = find_method(tree, "UpnpEventHandler", "async_subscribe")
    reg_line = None
    for n in ast.walk(sub):
        if isinstance(n, ast.Assign) and len(n.targets) == 1 and isinstance(n.targets[0], ast.Subscript):
            t = n.targets[0]
            if isinstance(t.value, ast.Attribute) and t.value.attr == "_subscriptions":
                reg_line = n.lineno if reg_line is None else min(reg_line, n.lineno)
    if reg_line is None:
        raise Untranslatable("async_subscribe: registration `self._subscriptions[sid] = service` not found")
    tail = [a for a in awaits(sub) if a.lineno > reg_line]
    other = [a for a in tail if not is_handle_notify(a)]
    out = extract.HEADER.format(src=SRC)
    out += "namespace Upnp.Gen.C11Race\n\n"
    out += "/-- number of suspension points (`await`, `async for`, `async with`) inside `handle_notify` -/\n"
    out += f"def handleNotifyAwaits : Nat := {len(awaits(hn))}\n\n"
    out += "/-- suspension points of `async_subscribe` after the SID is registered: the replay's `await self.handle_notify(…)` -/\n"
    out += f"def tailReplayAwaits : Nat := {len(tail) - len(other)}\n"
    out += "/-- … and any other (each one is a point where a NOTIFY can overtake the replay) -/\n"
    out += f"def tailOtherAwaits : Nat := {len(other)}\n"
    out += "\nend Upnp.Gen.C11Race\n"
    return out
