"""Translator for C12: profiles/profile.py -> lean/Upnp/Gen/C12Profile.lean.

Pins the constants SUBSCRIBE_TIMEOUT / RESUBSCRIBE_TOLERANCE and the *shape* of the subscription code the
Lean model transcribes.  The functions are normalised (docstrings, comments and `_LOGGER` calls removed,
`ast.unparse`) and compared with templates; the few places where the model is parametrised become data:

  skipStale  -- `_async_resubscribe_services` skips entries with `renewal_time < now - tolerance`
  delEarly   -- the bookkeeping entry is deleted before the renewal request is awaited
  clearDone  -- `_update_resubscriber_task` forgets a finished task (`.done()`), not only a cancelled one
  subscribesEmbedded -- the subscribe loop iterates `profile_device.all_services` (services of embedded devices
                included), not only `profile_device.services.values()`

Also pinned verbatim: `_interesting_service` (exact membership of the service type in a `_SERVICE_TYPES` set) and the
base `_on_event` (forwards to `self.on_event`); profile subclasses (dlna.py, igd.py, printer.py) must not override any
transcribed function, and an `_on_event` override must end by forwarding unconditionally.

Any other shape raises Untranslatable (reported as broken obligation extract:C12Profile).
"""
from __future__ import annotations

import ast
import itertools
from pathlib import Path

import extract
from extract import Untranslatable

SRC = "async_upnp_client/profiles/profile.py"


class _Strip(ast.NodeTransformer):
    """remove docstrings and logging statements; keep bodies non-empty"""

    def _is_noise(self, node: ast.stmt) -> bool:
        if isinstance(node, ast.Expr):
            v = node.value
            if isinstance(v, ast.Constant) and isinstance(v.value, str):
                return True
            if (isinstance(v, ast.Call) and isinstance(v.func, ast.Attribute)
                    and isinstance(v.func.value, ast.Name) and v.func.value.id == "_LOGGER"):
                return True
        return False

    def generic_visit(self, node):
        super().generic_visit(node)
        for field in ("body", "orelse", "finalbody"):
            stmts = getattr(node, field, None)
            if isinstance(stmts, list) and stmts and isinstance(stmts[0], ast.stmt):
                kept = [s for s in stmts if not self._is_noise(s)]
                if not kept and field == "body":
                    kept = [ast.Pass()]
                setattr(node, field, kept)
        return node


def canon(template: str) -> str:
    """a template in the normal form `norm` produces (independent of the Python version's unparse style)"""
    return norm(ast.parse(template).body[0])


def norm(fn: ast.AST) -> str:
    fn = _Strip().visit(fn)
    fn.returns = None  # type: ignore[attr-defined]
    for a in fn.args.args + fn.args.kwonlyargs:  # type: ignore[attr-defined]
        a.annotation = None
    ast.fix_missing_locations(fn)
    return ast.unparse(fn)


def timedelta_secs(node: ast.AST, what: str) -> int:
    if not (isinstance(node, ast.Call) and isinstance(node.func, ast.Name) and node.func.id == "timedelta" and not node.args):
        raise Untranslatable(f"{what}: not a timedelta(...) call: {ast.unparse(node)}")
    unit = {"seconds": 1, "minutes": 60, "hours": 3600, "days": 86400}
    total = 0
    for kw in node.keywords:
        if kw.arg not in unit or not (isinstance(kw.value, ast.Constant) and isinstance(kw.value.value, int)):
            raise Untranslatable(f"{what}: unsupported timedelta argument {ast.unparse(kw)}")
        total += unit[kw.arg] * kw.value.value
    if total < 0:
        raise Untranslatable(f"{what}: negative")
    return total


LOOP = """async def _resubscribe_loop(self):
    while self._subscriptions:
        next_renewal = min(self._subscriptions.values())
        wait_time = next_renewal - time.monotonic() - RESUBSCRIBE_TOLERANCE_SECS
        if wait_time > 0:
            await asyncio.sleep(wait_time)
        await self._async_resubscribe_services(notify_errors=True)"""

UNSUB = """async def async_unsubscribe_services(self):
    sids = list(self._subscriptions)
    self._subscriptions.clear()
    await self._update_resubscriber_task()
    await asyncio.gather(*(self._async_unsubscribe_service(sid) for sid in sids))"""

UNSUB_ONE = """async def _async_unsubscribe_service(self, sid):
    assert self._event_handler
    try:
        await self._event_handler.async_unsubscribe(sid)
    except UpnpError as err:
        pass
    except KeyError:
        pass"""

def subscribe_tpl(iter_expr: str) -> str:
    return SUBSCRIBE.replace("self.profile_device.services.values()", iter_expr)


SUBSCRIBE = """async def async_subscribe_services(self, auto_resubscribe=False):
    if not self._event_handler:
        return None
    now = time.monotonic()
    try:
        if self._subscriptions:
            await self._async_resubscribe_services(now)
        else:
            for service in self.profile_device.services.values():
                if not self._interesting_service(service):
                    continue
                service.on_event = self._on_event
                (new_sid, timeout) = await self._event_handler.async_subscribe(service, timeout=SUBSCRIBE_TIMEOUT)
                self._subscriptions[new_sid] = now + timeout.total_seconds()
    except UpnpError as err:
        if isinstance(err, UpnpResponseError) and (not self._subscriptions):
            pass
        try:
            await self.async_unsubscribe_services()
        except UpnpError:
            pass
        raise
    if not self._subscriptions:
        return None
    if auto_resubscribe:
        await self._update_resubscriber_task()
        return None
    lowest_timeout_delta = min(self._subscriptions.values()) - now
    resubcription_timeout = timedelta(seconds=lowest_timeout_delta) - RESUBSCRIBE_TOLERANCE
    return max(resubcription_timeout, timedelta(seconds=0))"""


INTERESTING = """def _interesting_service(self, service):
    service_type = service.service_type
    for service_types in self._SERVICE_TYPES.values():
        if service_type in service_types:
            return True
    return False"""

ON_EVENT = """def _on_event(self, service, state_variables):
    if self.on_event:
        self.on_event(service, state_variables)"""

FORWARD = "if self.on_event:\n    self.on_event(service, state_variables)"

# functions of UpnpProfileDevice the model transcribes: a subclass overriding one of them would bypass every pin
NO_OVERRIDE = {"async_subscribe_services", "async_unsubscribe_services", "_async_resubscribe_services",
               "_resubscribe_loop", "_update_resubscriber_task", "_async_unsubscribe_service", "_interesting_service"}
SUBCLASS_FILES = ["async_upnp_client/profiles/dlna.py", "async_upnp_client/profiles/igd.py",
                  "async_upnp_client/profiles/printer.py"]


def check_subclasses(repo: Path) -> None:
    """profile subclasses must not override the transcribed functions; an `_on_event` override must end by forwarding
    to `self.on_event(service, state_variables)` unconditionally (no `return` before it), so that the empty change
    list reporting a failed renewal reaches the callback"""
    for src in SUBCLASS_FILES:
        mod = extract.parse(repo, src)
        for cls in [n for n in mod.body if isinstance(n, ast.ClassDef)]:
            for f in [n for n in cls.body if isinstance(n, (ast.FunctionDef, ast.AsyncFunctionDef))]:
                if f.name in NO_OVERRIDE:
                    raise Untranslatable(f"{src}:{cls.name} overrides {f.name}, which the model transcribes from UpnpProfileDevice")
                if f.name == "_on_event":
                    body = _Strip().visit(f).body
                    if not body or ast.unparse(body[-1]) != FORWARD:
                        raise Untranslatable(f"{src}:{cls.name}._on_event does not end with `{FORWARD}`")
                    for node in ast.walk(ast.Module(body=body[:-1], type_ignores=[])):
                        if isinstance(node, (ast.Return, ast.Raise)):
                            raise Untranslatable(f"{src}:{cls.name}._on_event may leave before forwarding to self.on_event")


def update_task(clear: str) -> str:
    return f"""async def _update_resubscriber_task(self):
    if self._resubscriber_task and self._resubscriber_task.{clear}():
        self._resubscriber_task = None
    if self._subscriptions and (not self._resubscriber_task):
        self._resubscriber_task = asyncio.ensure_future(self._resubscribe_loop())
    if not self._subscriptions and self._resubscriber_task:
        self._resubscriber_task.cancel()
        try:
            await self._resubscriber_task
        except asyncio.CancelledError:
            pass
        self._resubscriber_task = None"""


DROPS = {"del": "del self._subscriptions[sid]", "pop": "self._subscriptions.pop(sid, None)"}


def resubscribe(skip: bool, early: bool, drop_lost: str, drop_err: str, drop_ok: str) -> str:
    """template of _async_resubscribe_services; drop_* in {'', 'del', 'pop'}"""
    L = ["async def _async_resubscribe_services(self, now=None, notify_errors=False):",
         "    assert self._event_handler",
         "    if now is None:",
         "        now = time.monotonic()"]
    if skip:
        L.append("    renewal_threshold = now - RESUBSCRIBE_TOLERANCE_SECS")
    L.append("    for (sid, renewal_time) in list(self._subscriptions.items()):")
    if skip:
        L += ["        if renewal_time < renewal_threshold:", "            continue"]
    if early:
        L.append("        del self._subscriptions[sid]")
    L += ["        service = self._event_handler.service_for_sid(sid)", "        if not service:"]
    if drop_lost:
        L.append("            " + DROPS[drop_lost])
    L += ["            continue",
          "        try:",
          "            (new_sid, timeout) = await self._event_handler.async_resubscribe(sid, timeout=SUBSCRIBE_TIMEOUT)",
          "        except UpnpError as err:"]
    if drop_err:
        L.append("            " + DROPS[drop_err])
    L += ["            if isinstance(err, UpnpConnectionError):",
          "                self.profile_device.available = False",
          "            if notify_errors:",
          "                self._on_event(service, [])",
          "            else:",
          "                raise",
          "        else:"]
    if drop_ok:
        L.append("            " + DROPS[drop_ok])
    L.append("            self._subscriptions[new_sid] = now + timeout.total_seconds()")
    return "\n".join(L)


def match_resubscribe(text: str):
    for skip, early in itertools.product([False, True], repeat=2):
        if early:
            if text == canon(resubscribe(skip, True, "", "", "")):
                return skip, True
        else:
            for a, b, c in itertools.product(["del", "pop"], repeat=3):
                if text == canon(resubscribe(skip, False, a, b, c)):
                    return skip, False
    raise Untranslatable("_async_resubscribe_services has an unrecognised shape:\n" + text)


@extract.generator("C12Profile")
def gen(repo: Path) -> str:
    mod = extract.parse(repo, SRC)
    consts = {}
    funcs = {}
    for node in mod.body:
        if isinstance(node, ast.Assign) and len(node.targets) == 1 and isinstance(node.targets[0], ast.Name):
            consts[node.targets[0].id] = node.value
        if isinstance(node, ast.ClassDef) and node.name == "UpnpProfileDevice":
            for f in node.body:
                if isinstance(f, (ast.AsyncFunctionDef, ast.FunctionDef)):
                    funcs[f.name] = f
    for c in ("SUBSCRIBE_TIMEOUT", "RESUBSCRIBE_TOLERANCE", "RESUBSCRIBE_TOLERANCE_SECS"):
        if c not in consts:
            raise Untranslatable(f"constant {c} not found")
    sub_timeout = timedelta_secs(consts["SUBSCRIBE_TIMEOUT"], "SUBSCRIBE_TIMEOUT")
    tol = timedelta_secs(consts["RESUBSCRIBE_TOLERANCE"], "RESUBSCRIBE_TOLERANCE")
    if ast.unparse(consts["RESUBSCRIBE_TOLERANCE_SECS"]) != "RESUBSCRIBE_TOLERANCE.total_seconds()":
        raise Untranslatable("RESUBSCRIBE_TOLERANCE_SECS is not RESUBSCRIBE_TOLERANCE.total_seconds()")

    def need(name: str) -> str:
        if name not in funcs:
            raise Untranslatable(f"UpnpProfileDevice.{name} not found")
        return norm(funcs[name])

    check_subclasses(repo)
    for name, want in (("_resubscribe_loop", LOOP), ("async_unsubscribe_services", UNSUB),
                       ("_async_unsubscribe_service", UNSUB_ONE), ("_interesting_service", INTERESTING),
                       ("_on_event", ON_EVENT)):
        got = need(name)
        if got != canon(want):
            raise Untranslatable(f"{name} has an unrecognised shape:\n{got}")
    subf = need("async_subscribe_services")
    if subf == canon(subscribe_tpl("self.profile_device.all_services")):
        embedded = True
    elif subf == canon(subscribe_tpl("self.profile_device.services.values()")):
        embedded = False
    else:
        raise Untranslatable("async_subscribe_services has an unrecognised shape:\n" + subf)
    upd = need("_update_resubscriber_task")
    if upd == canon(update_task("done")):
        clear_done = True
    elif upd == canon(update_task("cancelled")):
        clear_done = False
    else:
        raise Untranslatable("_update_resubscriber_task has an unrecognised shape:\n" + upd)
    skip, early = match_resubscribe(need("_async_resubscribe_services"))

    b = lambda x: "true" if x else "false"  # noqa: E731
    return (extract.HEADER.format(src=SRC)
            + "namespace Upnp.Gen.C12Profile\n\n"
            + f"/-- SUBSCRIBE_TIMEOUT in seconds -/\ndef subscribeTimeoutSecs : Nat := {sub_timeout}\n"
            + f"/-- RESUBSCRIBE_TOLERANCE in seconds -/\ndef resubToleranceSecs : Nat := {tol}\n"
            + "/-- `_async_resubscribe_services` skips entries with `renewal_time < now - tolerance` -/\n"
            + f"def skipStale : Bool := {b(skip)}\n"
            + "/-- the bookkeeping entry is deleted before the renewal request is awaited -/\n"
            + f"def delEarly : Bool := {b(early)}\n"
            + "/-- `_update_resubscriber_task` forgets a finished (`.done()`) task, not only a cancelled one -/\n"
            + f"def clearDone : Bool := {b(clear_done)}\n"
            + "/-- the subscribe loop covers the services of embedded devices (`profile_device.all_services`) -/\n"
            + f"def subscribesEmbedded : Bool := {b(embedded)}\n"
            + "/-- shapes pinned verbatim by the translator (normalised source must equal its template):\n"
            + "    `while self._subscriptions` / `min(values)` / `wait_time = next - monotonic() - tolerance` /\n"
            + "    `if wait_time > 0: sleep` / renew-all round; subscribe loop with rollback; clear-cancel-gather unsubscribe -/\n"
            + "def shapesPinned : Bool := true\n\n"
            + "end Upnp.Gen.C12Profile\n")
