"""Translator for C12 (service tables): profiles/{dlna,igd,printer}.py -> lean/Upnp/Gen/C12ServiceTypes.lean.

"Subscribing a profile device subscribes all and only its profile's services" depends on each profile class's
`_SERVICE_TYPES` (alias -> set of service-type URNs) and `DEVICE_TYPES`.  They are extracted with `ast` only
(nothing is imported or evaluated).  Accepted shapes, anything else raises Untranslatable:

  DEVICE_TYPES   = [ "urn:...:device:Name:N", ... ]                      (list/tuple/set of string literals)
  _SERVICE_TYPES = { "ALIAS": { "urn:...:service:Name:N", ... }, ...,    (dict display, set/list/tuple of literals)
                     **OtherClass._SERVICE_TYPES }                        (spread of a class of the same file whose
                                                                           table was itself extracted)

Every URN of one alias / one DEVICE_TYPES list must share the same prefix `urn:<domain>:<kind>:<Name>` and end
in `:<decimal version>`.  A helper call, comprehension, name reference, string arithmetic … is refused.
Output: rows (class, alias, prefix, sorted versions) as `List Char` / `Nat` data.
"""
from __future__ import annotations

import ast
import re
from pathlib import Path
from typing import Dict, List, Tuple

import extract
from extract import Untranslatable, lean_str

FILES = ["async_upnp_client/profiles/dlna.py", "async_upnp_client/profiles/igd.py", "async_upnp_client/profiles/printer.py"]
URN = re.compile(r"^(urn:[A-Za-z0-9.\-]+:(?:service|device):[A-Za-z0-9_\-]+):([0-9]+)$")


def chars(s: str) -> str:
    return lean_str(s) + ".toList"


def _lit(node: ast.AST, what: str) -> str:
    if isinstance(node, ast.Constant) and isinstance(node.value, str):
        return node.value
    raise Untranslatable(f"{what}: expected a string literal, got `{ast.unparse(node)[:80]}`")


def _urns(node: ast.AST, what: str) -> Tuple[str, List[int]]:
    if not isinstance(node, (ast.List, ast.Tuple, ast.Set)):
        raise Untranslatable(f"{what}: expected a list/tuple/set display of string literals, got `{ast.unparse(node)[:80]}`")
    if not node.elts:
        raise Untranslatable(f"{what}: empty")
    prefix = None
    versions: List[int] = []
    for e in node.elts:
        s = _lit(e, what)
        m = URN.match(s)
        if not m:
            raise Untranslatable(f"{what}: `{s}` is not urn:<domain>:<service|device>:<Name>:<version>")
        if prefix is None:
            prefix = m.group(1)
        elif prefix != m.group(1):
            raise Untranslatable(f"{what}: mixed types `{prefix}` / `{m.group(1)}` under one entry")
        v = int(m.group(2))
        if v in versions:
            raise Untranslatable(f"{what}: version {v} listed twice")
        versions.append(v)
    return prefix, sorted(versions)


def _class_tables(cls: ast.ClassDef, known: Dict[str, List[Tuple[str, str, List[int]]]], src: str):
    dev = None
    svc = None
    for st in cls.body:
        targets = []
        value = None
        if isinstance(st, ast.Assign):
            targets, value = st.targets, st.value
        elif isinstance(st, ast.AnnAssign) and st.value is not None:
            targets, value = [st.target], st.value
        for t in targets:
            if isinstance(t, ast.Name) and t.id == "DEVICE_TYPES":
                if dev is not None:
                    raise Untranslatable(f"{src}:{cls.name}: DEVICE_TYPES assigned twice")
                dev = _urns(value, f"{src}:{cls.name}.DEVICE_TYPES")
            if isinstance(t, ast.Name) and t.id == "_SERVICE_TYPES":
                if svc is not None:
                    raise Untranslatable(f"{src}:{cls.name}: _SERVICE_TYPES assigned twice")
                if not isinstance(value, ast.Dict):
                    raise Untranslatable(f"{src}:{cls.name}._SERVICE_TYPES: expected a dict display, got `{ast.unparse(value)[:80]}`")
                rows: List[Tuple[str, str, List[int]]] = []
                for k, v in zip(value.keys, value.values):
                    if k is None:  # **spread
                        if (isinstance(v, ast.Attribute) and v.attr == "_SERVICE_TYPES" and isinstance(v.value, ast.Name)
                                and v.value.id in known):
                            rows.extend(known[v.value.id])
                        else:
                            raise Untranslatable(f"{src}:{cls.name}._SERVICE_TYPES: unsupported spread `**{ast.unparse(v)[:60]}`")
                    else:
                        alias = _lit(k, f"{src}:{cls.name}._SERVICE_TYPES key")
                        if alias in [r[0] for r in rows]:
                            raise Untranslatable(f"{src}:{cls.name}._SERVICE_TYPES: alias {alias} twice")
                        prefix, versions = _urns(v, f"{src}:{cls.name}._SERVICE_TYPES[{alias}]")
                        rows.append((alias, prefix, versions))
                svc = rows
    return dev, svc


@extract.generator("C12ServiceTypes")
def gen(repo: Path) -> str:
    dev_rows: List[Tuple[str, str, List[int]]] = []
    svc_rows: List[Tuple[str, str, str, List[int]]] = []
    for src in FILES:
        mod = extract.parse(repo, src)
        known: Dict[str, List[Tuple[str, str, List[int]]]] = {}
        for node in mod.body:
            if not isinstance(node, ast.ClassDef):
                continue
            dev, svc = _class_tables(node, known, src)
            if svc is not None:
                known[node.name] = svc
                for alias, prefix, versions in sorted(svc):
                    svc_rows.append((node.name, alias, prefix, versions))
            if dev is not None:
                dev_rows.append((node.name, dev[0], dev[1]))
    if not svc_rows or not dev_rows:
        raise Untranslatable("no profile tables found")
    nat_list = lambda l: "[" + ", ".join(str(x) for x in l) + "]"  # noqa: E731
    out = [extract.HEADER.format(src=", ".join(FILES)),
           "namespace Upnp.Gen.C12ServiceTypes\n\n",
           "/-- (profile class, type prefix `urn:…:device:Name`, versions listed in DEVICE_TYPES, ascending) -/\n",
           "def deviceTypes : List (List Char × List Char × List Nat) :=\n  [ ",
           ",\n    ".join(f"({chars(c)}, {chars(p)}, {nat_list(v)})" for c, p, v in dev_rows),
           " ]\n\n",
           "/-- (profile class, alias, type prefix `urn:…:service:Name`, versions listed in _SERVICE_TYPES, ascending);\n",
           "    a `**Other._SERVICE_TYPES` spread is expanded -/\n",
           "def serviceTypes : List (List Char × List Char × List Char × List Nat) :=\n  [ ",
           ",\n    ".join(f"({chars(c)}, {chars(a)}, {chars(p)}, {nat_list(v)})" for c, a, p, v in svc_rows),
           " ]\n\nend Upnp.Gen.C12ServiceTypes\n"]
    return "".join(out)
