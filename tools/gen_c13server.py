"""C13 translator: constants and control shape of the SSDP server (`server.py`, `ssdp.py`) ->
lean/Upnp/Gen/C13Server.lean.  `ast` only; every shape that is not recognised raises Untranslatable.

  mxCap, jitterLo, jitterHiOff     `delay = min(5, int(mx_header))`, `randrange(100, (delay * 1000) - 250) / 1000`
  guardTruthy                      the test that selects the delayed send: `delay > 0` (False) or `delay` (True)
  sendNowAlso                      whether `_send_responses` also runs when the delayed send was scheduled
  announceMs                       SsdpAdvertisementAnnouncer.ANNOUNCE_INTERVAL
  cacheControl                     HEADER_CACHE_CONTROL
  responseKeys / notifyKeys        header names, in order, of `_build_response` / `_build_advertisements`
  stAll, stRootDevice, discover    ssdp.py constants
"""
from __future__ import annotations

import ast
from pathlib import Path

import extract
from extract import Untranslatable


def chars(s: str) -> str:
    for ch in s:
        if ord(ch) < 32 or ord(ch) > 126:
            raise Untranslatable(f"non-printable character in {s!r}")
    esc = {"'": "\\'", "\\": "\\\\"}
    return "[" + ", ".join("'" + esc.get(c, c) + "'" for c in s) + "]"


def const_str(mod: ast.Module, name: str) -> str:
    for node in mod.body:
        if isinstance(node, ast.Assign) and len(node.targets) == 1 and isinstance(node.targets[0], ast.Name) \
                and node.targets[0].id == name:
            if isinstance(node.value, ast.Constant) and isinstance(node.value.value, str):
                return node.value.value
            raise Untranslatable(f"{name} is not a string literal")
    raise Untranslatable(f"{name} not found")


def find_class(mod: ast.Module, name: str) -> ast.ClassDef:
    for node in mod.body:
        if isinstance(node, ast.ClassDef) and node.name == name:
            return node
    raise Untranslatable(f"class {name} not found")


def find_func(body, name: str) -> ast.FunctionDef:
    for node in body:
        if isinstance(node, (ast.FunctionDef, ast.AsyncFunctionDef)) and node.name == name:
            return node
    raise Untranslatable(f"function {name} not found")


def int_const(node) -> int:
    if isinstance(node, ast.Constant) and type(node.value) is int:
        return node.value
    if isinstance(node, ast.UnaryOp) and isinstance(node.op, ast.USub) and isinstance(node.operand, ast.Constant) \
            and type(node.operand.value) is int:
        return -node.operand.value
    raise Untranslatable(f"integer literal expected, got {ast.dump(node)}")


def is_name(node, name: str) -> bool:
    return isinstance(node, ast.Name) and node.id == name


def is_self_call(node, attr: str) -> bool:
    return (isinstance(node, ast.Expr) and isinstance(node.value, ast.Call) and isinstance(node.value.func, ast.Attribute)
            and node.value.func.attr == attr and is_name(node.value.func.value, "self"))


def _is_logging(st) -> bool:
    if isinstance(st, ast.Expr) and isinstance(st.value, ast.Call) and isinstance(st.value.func, ast.Attribute) \
            and isinstance(st.value.func.value, ast.Name) and st.value.func.value.id.startswith("_LOGGER"):
        return True
    if isinstance(st, ast.If) and not st.orelse and all(_is_logging(x) for x in st.body) and (
            is_name(st.test, "debug") or ast.unparse(st.test).startswith("_LOGGER")):
        return True
    if isinstance(st, ast.Assign) and len(st.targets) == 1 and is_name(st.targets[0], "debug"):
        return True
    return False


def _strip_logging(stmts):
    out = []
    for st in stmts:
        if _is_logging(st):
            continue
        if isinstance(st, ast.Expr) and isinstance(st.value, ast.Constant) and isinstance(st.value.value, str):
            continue  # docstring
        st = ast.fix_missing_locations(ast.parse(ast.unparse(st)).body[0])  # private copy
        for node in ast.walk(st):
            for field in ("body", "orelse", "finalbody"):
                sub = getattr(node, field, None)
                if isinstance(sub, list) and sub and isinstance(sub[0], ast.stmt):
                    kept = [x for x in sub if not _is_logging(x)]
                    setattr(node, field, kept or ([ast.Pass()] if field == "body" else []))
        out.append(st)
    return out


def on_data_prefix_check(fn: ast.FunctionDef, send_idx: int, cap: int) -> None:
    """Everything `_on_data` does before the pinned send statement must be exactly the known skeleton (logging
    apart): any other statement - e.g. per-requester state - is outside the model and must not pass silently."""
    got = [ast.unparse(st) for st in _strip_logging(fn.body[:send_idx])]
    want = [
        "assert self._transport",
        "if request_line != 'M-SEARCH * HTTP/1.1' or headers.get_lower('man') != SSDP_DISCOVER:\n    return",
        "remote_addr = headers.get_lower('_remote_addr')",
        "mx_header = headers.get_lower('mx')",
        "delay = 0",
        f"if mx_header is not None:\n    try:\n        delay = min({cap}, int(mx_header))\n    except ValueError:\n        pass",
        "if not (responses := self._build_responses(headers)):\n    return",
        "remote_addr = headers.get_lower('_remote_addr')",
    ]
    if got != want:
        diff = [g for g in got if g not in want] + [f"(missing) {w}" for w in want if w not in got]
        raise Untranslatable("_on_data does something outside the modelled skeleton: " + " | ".join(d.replace("\n", " ") for d in diff)[:400])


def on_data_shape(fn: ast.FunctionDef):
    # delay = min(CAP, int(mx_header))
    caps = []
    for node in ast.walk(fn):
        if isinstance(node, ast.Assign) and len(node.targets) == 1 and is_name(node.targets[0], "delay") \
                and isinstance(node.value, ast.Call) and is_name(node.value.func, "min"):
            a = node.value.args
            if len(a) == 2 and isinstance(a[1], ast.Call) and is_name(a[1].func, "int") and len(a[1].args) == 1 \
                    and is_name(a[1].args[0], "mx_header"):
                caps.append(int_const(a[0]))
            else:
                raise Untranslatable("delay = min(...) has an unknown shape")
    if len(caps) != 1:
        raise Untranslatable(f"expected exactly one `delay = min(CAP, int(mx_header))`, found {len(caps)}")
    # the statement that sends: `if <guard>: self._loop.call_at(self._loop.time() + randrange(LO, (delay * 1000) - OFF) / 1000, self._send_responses, remote_addr, responses)`
    # followed by `else: self._send_responses(...)` or by an unconditional `self._send_responses(...)`
    body = fn.body
    idx = None
    for i, st in enumerate(body):
        if isinstance(st, ast.If) and any(isinstance(n, ast.Call) and isinstance(n.func, ast.Attribute) and n.func.attr == "call_at"
                                          for n in ast.walk(st)):
            if idx is not None:
                raise Untranslatable("more than one call_at statement")
            idx = i
    if idx is None:
        raise Untranslatable("no `if ...: call_at(...)` statement in _on_data")
    st = body[idx]
    if is_name(st.test, "delay"):
        guard_truthy = True
    elif isinstance(st.test, ast.Compare) and is_name(st.test.left, "delay") and len(st.test.ops) == 1 \
            and isinstance(st.test.ops[0], ast.Gt) and int_const(st.test.comparators[0]) == 0:
        guard_truthy = False
    else:
        raise Untranslatable("unknown guard of the delayed send: " + ast.unparse(st.test))
    if len(st.body) != 1 or not (isinstance(st.body[0], ast.Expr) and isinstance(st.body[0].value, ast.Call)):
        raise Untranslatable("delayed-send branch has an unknown shape")
    call = st.body[0].value
    if not (isinstance(call.func, ast.Attribute) and call.func.attr == "call_at" and len(call.args) == 4):
        raise Untranslatable("delayed-send branch is not a call_at with 4 arguments")
    when, cb, a1, a2 = call.args
    if not (isinstance(cb, ast.Attribute) and cb.attr == "_send_responses" and is_name(a1, "remote_addr") and is_name(a2, "responses")):
        raise Untranslatable("call_at does not schedule _send_responses(remote_addr, responses)")
    # when = self._loop.time() + randrange(LO, (delay * S) - OFF) / S
    if not (isinstance(when, ast.BinOp) and isinstance(when.op, ast.Add) and ast.unparse(when.left) == "self._loop.time()"):
        raise Untranslatable("call_at time is not `self._loop.time() + ...` (the loop's own clock)")
    if ast.unparse(call.func) != "self._loop.call_at":
        raise Untranslatable("the delayed send is not scheduled with self._loop.call_at")
    frac = when.right
    if not (isinstance(frac, ast.BinOp) and isinstance(frac.op, ast.Div) and isinstance(frac.left, ast.Call)
            and is_name(frac.left.func, "randrange") and len(frac.left.args) == 2):
        raise Untranslatable("jitter is not randrange(a, b) / c")
    div = int_const(frac.right)
    lo = int_const(frac.left.args[0])
    hi = frac.left.args[1]
    if not (isinstance(hi, ast.BinOp) and isinstance(hi.op, (ast.Sub, ast.Add)) and isinstance(hi.left, ast.BinOp)
            and isinstance(hi.left.op, ast.Mult) and is_name(hi.left.left, "delay")):
        raise Untranslatable("jitter upper bound is not (delay * S) ± OFF")
    scale = int_const(hi.left.right)
    off = int_const(hi.right)
    if isinstance(hi.op, ast.Add):
        off = -off
    if scale != 1000 or div != 1000:
        raise Untranslatable(f"jitter is not in milliseconds (scale {scale}, divisor {div})")
    # immediate send
    send_now_also = None
    if len(st.orelse) == 1 and is_self_call(st.orelse[0], "_send_responses"):
        send_now_also = False
        rest = body[idx + 1:]
    elif not st.orelse and idx + 1 < len(body) and is_self_call(body[idx + 1], "_send_responses"):
        send_now_also = True
        rest = body[idx + 2:]
    else:
        raise Untranslatable("cannot find the immediate _send_responses next to the delayed one")
    if rest:
        raise Untranslatable("statements after the send in _on_data")
    on_data_prefix_check(fn, idx, caps[0])
    return caps[0], lo, off, guard_truthy, send_now_also


def dict_keys(node) -> list:
    if not isinstance(node, ast.Dict):
        raise Untranslatable("dict display expected")
    keys = []
    for k in node.keys:
        if not (isinstance(k, ast.Constant) and isinstance(k.value, str)):
            raise Untranslatable("non-literal header name")
        keys.append(k.value)
    return keys


def _skeleton(fn) -> list:
    return [ast.unparse(st) for st in _strip_logging(fn.body)]


def value_pins(server: ast.Module, responder: ast.ClassDef, announcer: ast.ClassDef) -> None:
    """Which VALUE goes where (ST vs USN, whose UDN), the version loop, the send loop, the byebye loop: the model
    transcribes these by hand; any other shape (logging apart) must not translate silently."""
    want = {
        "_build_response_rootdevice": ["return self._build_response('upnp:rootdevice', f'{self.device.udn}::upnp:rootdevice')"],
        "_build_responses_device_udn": ["return self._build_response(device.udn, f'{device.udn}')"],
        "_build_responses_device_type": ["return self._build_response(device_type or device.device_type, "
                                         "f'{device.udn}::{device.device_type}')"],
        "_build_responses_service": ["return self._build_response(service_type or service.service_type, "
                                     "f'{service.device.udn}::{service.service_type}')"],
        "_send_responses": ["assert self._response_socket, 'Socket not initialized'",
                            "for response in responses:\n    self._response_socket.sendto(response, remote_addr)"],
        "_match_type_versions": [
            "type_ver_lower: str = type_ver.lower()",
            "try:\n    base, max_ver = type_ver_lower.rsplit(':', 1)\n    max_ver_i = int(max_ver)\n"
            "    for ver in range(max_ver_i + 1):\n        if f'{base}:{ver}' == search_target:\n            return True\n"
            "except ValueError:\n    if type_ver_lower == search_target:\n        return True",
            "return False"],
        "_matched_devices_by_type": ["return [device for device in self.device.all_devices "
                                     "if self._match_type_versions(device.device_type, search_target)]"],
        "_matched_services_by_type": ["return [service for service in self.device.all_services "
                                      "if self._match_type_versions(service.service_type, search_target)]"],
    }
    for name, exp in want.items():
        got = _skeleton(find_func(responder.body, name))
        if got != exp:
            raise Untranslatable(f"{name} is not the modelled shape: " + " | ".join(got).replace("\n", " ")[:300])
    got = _skeleton(find_func(announcer.body, "_send_byebyes"))
    exp = ["assert self._transport", "start_line = 'NOTIFY * HTTP/1.1'",
           "advertisements = _build_advertisements(self.target, self.device, NotificationSubType.SSDP_BYEBYE)",
           "for headers in advertisements:\n    packet = build_ssdp_packet(start_line, headers)\n"
           "    protocol = cast(SsdpProtocol, self._transport.get_protocol())\n"
           "    protocol.send_ssdp_packet(packet, self.target)"]
    if got != exp:
        raise Untranslatable("_send_byebyes is not the modelled shape: " + " | ".join(got).replace("\n", " ")[:300])
    # _build_advertisements: the (NT, USN) value expressions, in order, and the two loops
    ba = find_func(server.body, "_build_advertisements")
    pairs = []
    for node in ast.walk(ba):
        if isinstance(node, ast.Call) and is_name(node.func, "CaseInsensitiveDict"):
            pairs.append((node.lineno, tuple((k.arg, ast.unparse(k.value)) for k in node.keywords)))
    pairs = [p for _, p in sorted(pairs)]
    exp_pairs = [(("NT", "'upnp:rootdevice'"), ("USN", "f'{root_device.udn}::upnp:rootdevice'")),
                 (("NT", "f'{device.udn}'"), ("USN", "f'{device.udn}'")),
                 (("NT", "f'{device.device_type}'"), ("USN", "f'{device.udn}::{device.device_type}'")),
                 (("NT", "f'{service.service_type}'"), ("USN", "f'{service.device.udn}::{service.service_type}'"))]
    if pairs != exp_pairs:
        raise Untranslatable(f"_build_advertisements: (NT, USN) values are not the modelled ones: {pairs}")
    loops = [(ast.unparse(n.target), ast.unparse(n.iter)) for n in ast.walk(ba) if isinstance(n, ast.For)]
    if sorted(loops) != sorted([("device", "root_device.all_devices"), ("service", "root_device.all_services")]):
        raise Untranslatable(f"_build_advertisements: loops are not the modelled ones: {loops}")


@extract.generator("C13Server")
def gen(repo: Path) -> str:
    server = extract.parse(repo, "async_upnp_client/server.py")
    ssdp = extract.parse(repo, "async_upnp_client/ssdp.py")
    responder = find_class(server, "SsdpSearchResponder")
    cap, lo, off, guard_truthy, send_now_also = on_data_shape(find_func(responder.body, "_on_data"))
    value_pins(server, responder, find_class(server, "SsdpAdvertisementAnnouncer"))

    # _build_response: return build_ssdp_packet("HTTP/1.1 200 OK", {...})
    br = find_func(responder.body, "_build_response")
    rets = [n for n in ast.walk(br) if isinstance(n, ast.Return)]
    if len(rets) != 1 or not (isinstance(rets[0].value, ast.Call) and is_name(rets[0].value.func, "build_ssdp_packet")
                              and len(rets[0].value.args) == 2):
        raise Untranslatable("_build_response is not `return build_ssdp_packet(line, {...})`")
    line = rets[0].value.args[0]
    if not (isinstance(line, ast.Constant) and isinstance(line.value, str)):
        raise Untranslatable("status line is not a literal")
    response_keys = dict_keys(rets[0].value.args[1])

    # _build_advertisements: base_headers = {...}; every CaseInsensitiveDict(base_headers, NT=..., USN=...)
    ba = find_func(server.body, "_build_advertisements")
    base = None
    for n in ast.walk(ba):
        if isinstance(n, ast.Assign) and len(n.targets) == 1 and is_name(n.targets[0], "base_headers"):
            base = dict_keys(n.value)
    if base is None:
        raise Untranslatable("base_headers not found")
    kws = set()
    for n in ast.walk(ba):
        if isinstance(n, ast.Call) and is_name(n.func, "CaseInsensitiveDict"):
            if not (len(n.args) == 1 and is_name(n.args[0], "base_headers")):
                raise Untranslatable("CaseInsensitiveDict(...) call with an unknown shape")
            kws.add(tuple(k.arg for k in n.keywords))
    if len(kws) != 1:
        raise Untranslatable(f"advertisement entries differ in their keyword headers: {sorted(kws)}")
    notify_keys = base + list(kws.pop())

    # ANNOUNCE_INTERVAL = timedelta(seconds=N)
    ann = find_class(server, "SsdpAdvertisementAnnouncer")
    interval = None
    for n in ann.body:
        if isinstance(n, ast.Assign) and len(n.targets) == 1 and is_name(n.targets[0], "ANNOUNCE_INTERVAL"):
            v = n.value
            if isinstance(v, ast.Call) and is_name(v.func, "timedelta") and not v.args and len(v.keywords) == 1 \
                    and v.keywords[0].arg == "seconds":
                interval = int_const(v.keywords[0].value) * 1000
    if interval is None:
        raise Untranslatable("ANNOUNCE_INTERVAL is not timedelta(seconds=N)")

    out = extract.HEADER.format(src="async_upnp_client/server.py, ssdp.py")
    out += "namespace Upnp.Gen.C13Server\n\n"
    out += f"def mxCap : Nat := {cap}\n"
    out += f"def jitterLo : Int := {lo}\n"
    out += f"def jitterHiOff : Int := {off}\n"
    out += f"def guardTruthy : Bool := {'true' if guard_truthy else 'false'}\n"
    out += f"def sendNowAlso : Bool := {'true' if send_now_also else 'false'}\n"
    out += f"def announceMs : Nat := {interval}\n"
    out += f"def cacheControl : List Char := {chars(const_str(server, 'HEADER_CACHE_CONTROL'))}\n"
    out += f"def statusLine : List Char := {chars(line.value)}\n"
    out += "def responseKeys : List (List Char) := [" + ", ".join(chars(k) for k in response_keys) + "]\n"
    out += "def notifyKeys : List (List Char) := [" + ", ".join(chars(k) for k in notify_keys) + "]\n"
    out += f"def stAll : List Char := {chars(const_str(ssdp, 'SSDP_ST_ALL'))}\n"
    out += f"def stRootDevice : List Char := {chars(const_str(ssdp, 'SSDP_ST_ROOTDEVICE'))}\n"
    out += f"def discover : List Char := {chars(const_str(ssdp, 'SSDP_DISCOVER'))}\n"
    out += "\nend Upnp.Gen.C13Server\n"
    return out
