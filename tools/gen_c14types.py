"""C14: const.py:STATE_VARIABLE_TYPE_MAPPING -> lean/Upnp/Gen/C14Types.lean.

Every row of the mapping is pattern-matched (ast only) against a closed list of shapes and classified
into the codec family the C14 model implements for it.  `outRaises` records the one known-bad shape of an
`out` coercer (`time.isoformat("T", "seconds")`: TypeError on every value); the C14 theorem `gen_types_ok`
demands it is absent.  Anything else raises Untranslatable.
"""
from __future__ import annotations

import ast
from pathlib import Path

import extract
from extract import Untranslatable, lean_str

BOOL_IN = 's.lower() in ["1", "true", "yes"]'


def _src(node: ast.AST) -> str:
    return ast.unparse(node)


def _lambda(node: ast.AST):
    if not isinstance(node, ast.Lambda) or len(node.args.args) != 1:
        return None
    return node.args.args[0].arg, node.body


def _isoformat_args(node: ast.AST):
    """`lambda x: x.isoformat(<consts>)` -> tuple of constant args, else None"""
    lam = _lambda(node)
    if lam is None:
        return None
    arg, body = lam
    if (isinstance(body, ast.Call) and isinstance(body.func, ast.Attribute) and body.func.attr == "isoformat"
            and isinstance(body.func.value, ast.Name) and body.func.value.id == arg and not body.keywords
            and all(isinstance(a, ast.Constant) for a in body.args)):
        return tuple(a.value for a in body.args)
    return None


def classify(name: str, row: ast.Dict):
    keys = [k.value for k in row.keys if isinstance(k, ast.Constant)]
    if len(keys) != len(row.keys) or not set(keys) <= {"type", "in", "out", "validator"} or not {"type", "in", "out"} <= set(keys):
        raise Untranslatable(f"{name}: keys {keys}")
    d = dict(zip(keys, row.values))
    ty = _src(d["type"])
    vin = d["in"]
    vout = d["out"]
    validator = _src(d["validator"]) if "validator" in d else None
    if validator not in (None, "require_tzinfo"):
        raise Untranslatable(f"{name}: validator {validator}")
    plain = lambda n: isinstance(n, ast.Name)  # noqa: E731
    if ty in ("int", "float", "str") and validator is None and plain(vin) and plain(vout):
        if (vin.id, vout.id) == (ty, "str"):
            return ty, False
        raise Untranslatable(f"{name}: in/out {vin.id}/{vout.id} for {ty}")
    if ty == "int" and validator is None and plain(vin) and vin.id == "int":
        # `lambda i: str(int(i))` (F06a repair): same text as `str` on every int, bools become 1/0
        lout = _lambda(vout)
        if lout and _src(lout[1]) == f"str(int({lout[0]}))":
            return "int", False
    if ty == "bool" and validator is None:
        lin, lout = _lambda(vin), _lambda(vout)
        if lin and lout:
            a, body = lin
            b, obody = lout
            want_in = BOOL_IN.replace("s.", a + ".")
            want_out = f"'1' if {b} else '0'"
            if _src(body) == _src(ast.parse(want_in, mode="eval").body) and _src(obody) == want_out:
                return "bool", False
        raise Untranslatable(f"{name}: boolean coercers {_src(vin)} / {_src(vout)}")
    if ty in ("date", "datetime", "time") and plain(vin) and vin.id == "parse_date_time":
        iso = _isoformat_args(vout)
        if ty == "date" and validator is None and iso == ():
            return "date", False
        if ty == "datetime" and iso == ("T", "seconds"):
            return ("dateTimeTz" if validator else "dateTime"), False
        if ty == "time" and iso == ("seconds",):
            return ("timeTz" if validator else "time"), False
        if ty == "time" and iso == ("T", "seconds"):   # time.isoformat takes one argument: TypeError
            return ("timeTz" if validator else "time"), True
    raise Untranslatable(f"{name}: type={ty} in={_src(vin)} out={_src(vout)} validator={validator}")


@extract.generator("C14Types")
def gen(repo: Path) -> str:
    rel = "async_upnp_client/const.py"
    mod = extract.parse(repo, rel)
    table = None
    for node in mod.body:
        tgt = None
        if isinstance(node, ast.AnnAssign) and isinstance(node.target, ast.Name):
            tgt, val = node.target.id, node.value
        elif isinstance(node, ast.Assign) and len(node.targets) == 1 and isinstance(node.targets[0], ast.Name):
            tgt, val = node.targets[0].id, node.value
        if tgt == "STATE_VARIABLE_TYPE_MAPPING":
            table = val
    if not isinstance(table, ast.Dict):
        raise Untranslatable("STATE_VARIABLE_TYPE_MAPPING is not a dict display")
    rows = []
    for k, v in zip(table.keys, table.values):
        if not (isinstance(k, ast.Constant) and isinstance(k.value, str) and isinstance(v, ast.Dict)):
            raise Untranslatable(f"row {ast.dump(k) if k else k}")
        fam, out_raises = classify(k.value, v)
        rows.append(f"  ⟨{lean_str(k.value)}, .{fam}, {'true' if out_raises else 'false'}⟩")
    out = extract.HEADER.format(src=rel)
    out += "namespace Upnp.Gen.C14\n\n"
    out += "/-- codec family of a UPnP data type (python type + in/out coercer shape + validator) -/\n"
    out += "inductive Fam | int | float | str | bool | date | dateTime | dateTimeTz | time | timeTz\nderiving DecidableEq, Repr\n\n"
    out += "structure TypeRow where\n  name : String\n  fam : Fam\n  outRaises : Bool\nderiving Repr\n\n"
    out += "/-- const.STATE_VARIABLE_TYPE_MAPPING -/\ndef typeRows : List TypeRow := [\n" + ",\n".join(rows) + "]\n\n"
    out += "def typeTable : List (String × Fam) := typeRows.map fun r => (r.name, r.fam)\n\n"
    out += "end Upnp.Gen.C14\n"
    return out
