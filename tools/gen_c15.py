"""C15 generator: the event-key arithmetic and the default subscription timeout of
`server.py:EventSubscriber`, read from the source with `ast` -> lean/Upnp/Gen/C15.lean.

Recognised shape (anything else raises Untranslatable):

    class EventSubscriber:
        DEFAULT_TIMEOUT = <int>
        def __init__(...):      ... self._event_key = <int> ...
        def get_next_seq(self):
            res = self._event_key
            self._event_key += <int>
            if self._event_key > <int>:
                self._event_key = <int>
            return res
"""
from __future__ import annotations

import ast
from pathlib import Path

import extract
from extract import Untranslatable


def _int(node) -> int:
    if isinstance(node, ast.Constant) and type(node.value) is int:
        return node.value
    raise Untranslatable(f"expected an int literal, got {ast.dump(node)}")


def _is_key(node) -> bool:
    return (isinstance(node, ast.Attribute) and node.attr == "_event_key"
            and isinstance(node.value, ast.Name) and node.value.id == "self")


@extract.generator("C15")
def gen(repo: Path) -> str:
    rel = "async_upnp_client/server.py"
    mod = extract.parse(repo, rel)
    cls = next((n for n in mod.body if isinstance(n, ast.ClassDef) and n.name == "EventSubscriber"), None)
    if cls is None:
        raise Untranslatable("class EventSubscriber not found")
    default = None
    start = None
    seq = None
    for n in cls.body:
        if isinstance(n, ast.Assign) and len(n.targets) == 1 and isinstance(n.targets[0], ast.Name) \
                and n.targets[0].id == "DEFAULT_TIMEOUT":
            default = _int(n.value)
        if isinstance(n, ast.FunctionDef) and n.name == "__init__":
            for s in ast.walk(n):
                if isinstance(s, ast.Assign) and len(s.targets) == 1 and _is_key(s.targets[0]):
                    if start is not None:
                        raise Untranslatable("_event_key assigned twice in __init__")
                    start = _int(s.value)
        if isinstance(n, ast.FunctionDef) and n.name == "get_next_seq":
            body = [s for s in n.body if not (isinstance(s, ast.Expr) and isinstance(s.value, ast.Constant))]
            if len(body) != 4:
                raise Untranslatable("get_next_seq: expected 4 statements")
            a, b, c, d = body
            ok = (isinstance(a, ast.Assign) and len(a.targets) == 1 and isinstance(a.targets[0], ast.Name)
                  and _is_key(a.value)
                  and isinstance(b, ast.AugAssign) and isinstance(b.op, ast.Add) and _is_key(b.target)
                  and isinstance(c, ast.If) and not c.orelse and len(c.body) == 1
                  and isinstance(c.test, ast.Compare) and len(c.test.ops) == 1 and isinstance(c.test.ops[0], ast.Gt)
                  and _is_key(c.test.left)
                  and isinstance(c.body[0], ast.Assign) and len(c.body[0].targets) == 1 and _is_key(c.body[0].targets[0])
                  and isinstance(d, ast.Return) and isinstance(d.value, ast.Name) and d.value.id == a.targets[0].id)
            if not ok:
                raise Untranslatable("get_next_seq: unrecognised shape")
            seq = (_int(b.value), _int(c.test.comparators[0]), _int(c.body[0].value))
    if default is None or start is None or seq is None:
        raise Untranslatable("EventSubscriber: DEFAULT_TIMEOUT / _event_key start / get_next_seq missing")
    for v in (default, start, *seq):
        if v < 0:
            raise Untranslatable("negative constant")
    return (extract.HEADER.format(src=rel)
            + "namespace Upnp.Gen.C15\n\n"
            + "/-- `EventSubscriber.DEFAULT_TIMEOUT` (seconds) -/\n"
            + f"def defaultTimeout : Int := {default}\n\n"
            + "/-- first event key (`self._event_key = …` in `__init__`) -/\n"
            + f"def seqStart : Nat := {start}\n\n"
            + "/-- `get_next_seq`: `_event_key += seqIncr; if _event_key > seqMax: _event_key = seqWrapTo` -/\n"
            + f"def seqIncr : Nat := {seq[0]}\n"
            + f"def seqMax : Nat := {seq[1]}\n"
            + f"def seqWrapTo : Nat := {seq[2]}\n\n"
            + "end Upnp.Gen.C15\n")
