"""C17 translator: async_upnp_client/aiohttp.py try/except ladders -> lean/Upnp/Gen/C17Ladders.lean.

Extracted with `ast` only:
  * the ordered handler list of the try statement in `AiohttpRequester.async_http_request` (plain),
    `AiohttpSessionRequester._async_http_request` (inner), and of the two try statements of
    `AiohttpSessionRequester.async_http_request` (the one inside `for _ in range(N)` = retry ladder,
    the one after it = final ladder) together with N;
  * per handler: the caught class names and the action (raise K(repr(err)) / raise K(..., status=err.status, ...)
    / bare `raise` / log only = swallow and retry).
The translator refuses (Untranslatable) any other shape, in particular a try body that does not
cover the `.request(` call, `response.read()` and `response.text()`.

Introspection is used for the `issubclass` matrix only: every class defined in exceptions.py, every
class named in a handler, and the classes a session can raise (aiohttp.client_exceptions.__all__,
TimeoutError, UnicodeDecodeError).  exceptions.py is loaded from $VERIF_REPO under a private name.
"""
from __future__ import annotations

import ast
import asyncio
import importlib.util
from pathlib import Path
from typing import Dict, List, Optional, Tuple

import extract
from extract import Untranslatable, lean_list, lean_str

SRC = "async_upnp_client/aiohttp.py"
EXC = "async_upnp_client/exceptions.py"

# names the spec needs (the judge and the theorems refer to these classes)
NAMED_EXTRA = {"cUnicodeDecode": "UnicodeDecodeError"}
NAMED = {
    "cTimeout": "TimeoutError",
    "cClientConn": "ClientConnectionError",
    "cClientResp": "ClientResponseError",
    "cUpnpComm": "UpnpCommunicationError",
    "cUpnpConn": "UpnpConnectionError",
    "cUpnpResp": "UpnpResponseError",
    "cUpnpClientResp": "UpnpClientResponseError",
}


def _find_class(mod: ast.Module, name: str) -> ast.ClassDef:
    for n in mod.body:
        if isinstance(n, ast.ClassDef) and n.name == name:
            return n
    raise Untranslatable(f"class {name} not found in {SRC}")


def _find_method(cls: ast.ClassDef, name: str) -> ast.AsyncFunctionDef:
    for n in cls.body:
        if isinstance(n, ast.AsyncFunctionDef) and n.name == name:
            return n
    raise Untranslatable(f"method {cls.name}.{name} not found")


def _type_names(t: Optional[ast.expr]) -> List[str]:
    if t is None:
        raise Untranslatable("bare `except:` handler")
    if isinstance(t, ast.Tuple):
        return [x for e in t.elts for x in _type_names(e)]
    if isinstance(t, ast.Name):
        return [t.id]
    if isinstance(t, ast.Attribute) and isinstance(t.value, ast.Name):
        return [f"{t.value.id}.{t.attr}"]
    raise Untranslatable(f"handler type {ast.dump(t)}")


def _is_log(stmt: ast.stmt) -> bool:
    return (isinstance(stmt, ast.Expr) and isinstance(stmt.value, ast.Call)
            and isinstance(stmt.value.func, ast.Attribute)
            and isinstance(stmt.value.func.value, ast.Name) and stmt.value.func.value.id.startswith("_LOGGER"))


def _action(h: ast.ExceptHandler, allow_swallow: bool) -> Tuple[str, Optional[str], bool]:
    """('raise', K, keepStatus) | ('reraise', None, True) | ('swallow', None, False)"""
    body = [s for s in h.body if not _is_log(s)]
    if not body:
        if not allow_swallow:
            raise Untranslatable(f"line {h.lineno}: handler falls through (no raise)")
        return ("swallow", None, False)
    if len(body) != 1 or not isinstance(body[0], ast.Raise):
        raise Untranslatable(f"line {h.lineno}: handler body is not a single raise")
    r = body[0]
    if r.exc is None:
        return ("reraise", None, True)
    if not (isinstance(r.exc, ast.Call) and isinstance(r.exc.func, ast.Name)):
        raise Untranslatable(f"line {h.lineno}: raise of something that is not a class call")
    if not (isinstance(r.cause, ast.Name) and r.cause.id == h.name):
        raise Untranslatable(f"line {h.lineno}: raise without `from {h.name}`")
    keep = False
    for kw in r.exc.keywords:
        if kw.arg == "status":
            v = kw.value
            if isinstance(v, ast.Attribute) and isinstance(v.value, ast.Name) and v.value.id == h.name and v.attr == "status":
                keep = True
            else:
                raise Untranslatable(f"line {h.lineno}: status= is not {h.name}.status")
    return ("raise", r.exc.func.id, keep)


def _ladder(t: ast.Try, allow_swallow: bool) -> List[Tuple[List[str], Tuple[str, Optional[str], bool]]]:
    if t.orelse or t.finalbody:
        raise Untranslatable(f"line {t.lineno}: try with else/finally")
    return [(_type_names(h.type), _action(h, allow_swallow)) for h in t.handlers]


def _covers_exchange(t: ast.Try, session_expr: str) -> None:
    """the try body must contain the `.request(` call, `.read()` and `.text()`"""
    need = {"request": False, "read": False, "text": False}
    for stmt in t.body:
        for n in ast.walk(stmt):
            if isinstance(n, ast.Call) and isinstance(n.func, ast.Attribute) and n.func.attr in need:
                need[n.func.attr] = True
    missing = [k for k, v in need.items() if not v]
    if missing:
        raise Untranslatable(f"line {t.lineno}: try body does not cover {missing}")


def _single_try(fn: ast.AsyncFunctionDef) -> ast.Try:
    tries = [n for n in fn.body if isinstance(n, ast.Try)]
    if len(tries) != 1:
        raise Untranslatable(f"{fn.name}: expected exactly one top-level try, found {len(tries)}")
    t = tries[0]
    # statements after the try: only the final `return status, resp_headers, resp_body_text`
    after = fn.body[fn.body.index(t) + 1:]
    if len(after) != 1 or not isinstance(after[0], ast.Return):
        raise Untranslatable(f"{fn.name}: statements after the try are not a single return")
    # the returned triple is pinned: exactly the three names bound inside the exchange, nothing applied to them
    if ast.unparse(after[0].value) not in ("(status, resp_headers, resp_body_text)", "status, resp_headers, resp_body_text"):
        raise Untranslatable(f"{fn.name}: returns `{ast.unparse(after[0].value)}`, not (status, resp_headers, resp_body_text)")
    # nothing awaited outside the try except `asyncio.sleep(0)`
    for stmt in fn.body[: fn.body.index(t)]:
        for n in ast.walk(stmt):
            if isinstance(n, ast.Await):
                c = n.value
                ok = (isinstance(c, ast.Call) and isinstance(c.func, ast.Attribute) and c.func.attr == "sleep")
                if not ok:
                    raise Untranslatable(f"{fn.name}: await outside the try at line {n.lineno}")
    return t


def _inner_call_args(t: ast.Try) -> List[str]:
    """argument list (source text) of `self._async_http_request(...)` in a retry/final try"""
    c = t.body[0].value.value  # type: ignore[attr-defined]
    return [ast.unparse(a) for a in c.args] + [f"{k.arg}={ast.unparse(k.value)}" for k in c.keywords]


def _request_call_args(t: ast.Try) -> List[str]:
    """argument list of the `.request(...)` call in the `async with` items of an inner try (exactly one such call)"""
    found = []
    body = t.body
    while len(body) == 1 and isinstance(body[0], ast.AsyncWith):
        for item in body[0].items:
            c = item.context_expr
            if isinstance(c, ast.Call) and isinstance(c.func, ast.Attribute) and c.func.attr == "request":
                found.append([ast.unparse(a) for a in c.args] + [f"{k.arg}={ast.unparse(k.value)}" for k in c.keywords])
            elif not (isinstance(c, ast.Call) and ast.unparse(c) == "ClientSession()"):
                raise Untranslatable(f"line {c.lineno}: unexpected `async with {ast.unparse(c)[:50]}`")
        body = body[0].body
    if len(found) != 1:
        raise Untranslatable(f"line {t.lineno}: expected exactly one `.request(...)` in the async-with chain, found {len(found)}")
    return found[0]


def _pre_try_pinned(fn: ast.AsyncFunctionDef, t: ast.Try) -> None:
    """statements before the try: docstring, `req_headers = _request_headers(url, self._http_headers, headers)`,
    the `log_traffic` assignment, `if log_traffic:` / `if self._with_sleep:` — nothing else"""
    seen_hdr = False
    for st in fn.body[: fn.body.index(t)]:
        if isinstance(st, ast.Expr) and isinstance(st.value, ast.Constant):
            continue
        if isinstance(st, ast.If):
            continue  # shapes checked by _logging
        if isinstance(st, ast.Assign) and len(st.targets) == 1 and isinstance(st.targets[0], ast.Name):
            tgt = st.targets[0].id
            if tgt == "req_headers":
                if ast.unparse(st.value) != "_request_headers(url, self._http_headers, headers)":
                    raise Untranslatable(f"line {st.lineno}: req_headers is `{ast.unparse(st.value)[:60]}`, "
                                         "not _request_headers(url, self._http_headers, headers)")
                seen_hdr = True
                continue
            if tgt == "log_traffic":
                continue
        raise Untranslatable(f"line {st.lineno}: unexpected statement `{ast.unparse(st)[:60]}` before the try")
    if not seen_hdr:
        raise Untranslatable(f"{fn.name}: req_headers is not computed by _request_headers(...)")


def _calls_inner(t: ast.Try) -> bool:
    if len(t.body) != 1 or not isinstance(t.body[0], ast.Return):
        return False
    v = t.body[0].value
    return (isinstance(v, ast.Await) and isinstance(v.value, ast.Call) and isinstance(v.value.func, ast.Attribute)
            and v.value.func.attr == "_async_http_request")


def _session_outer(fn: ast.AsyncFunctionDef):
    body = [s for s in fn.body if not (isinstance(s, ast.Expr) and isinstance(s.value, ast.Constant))]
    if len(body) != 2 or not isinstance(body[0], ast.For) or not isinstance(body[1], ast.Try):
        raise Untranslatable("AiohttpSessionRequester.async_http_request: expected `for … range(N): try …` then `try …`")
    loop, final = body
    it = loop.iter
    if not (isinstance(it, ast.Call) and isinstance(it.func, ast.Name) and it.func.id == "range" and len(it.args) == 1
            and isinstance(it.args[0], ast.Constant) and isinstance(it.args[0].value, int)) or loop.orelse:
        raise Untranslatable("retry loop is not `for _ in range(<int>)`")
    if len(loop.body) != 1 or not isinstance(loop.body[0], ast.Try):
        raise Untranslatable("retry loop body is not a single try")
    rt = loop.body[0]
    if not _calls_inner(rt) or not _calls_inner(final):
        raise Untranslatable("retry/final try body is not `return await self._async_http_request(...)`")
    return it.args[0].value, _ladder(rt, True), _ladder(final, False), _inner_call_args(rt), _inner_call_args(final)


# ---- inventory: nothing that could be a ladder may exist outside the modelled ones -----------------------

REQUESTER_METHODS = {
    "AiohttpRequester": {"__init__", "async_http_request"},
    "AiohttpSessionRequester": {"__init__", "async_http_request", "_async_http_request"},
}
MODULE_FUNCTIONS = {"_fixed_host_header", "_request_headers"}       # header helpers (hand-modelled)
OTHER_CLASSES = {"AiohttpNotifyServer"}                              # not a requester (C09/C10 territory)


def _is_requester(cls: ast.ClassDef) -> bool:
    bases = {ast.unparse(b).split(".")[-1] for b in cls.bases}
    return "UpnpRequester" in bases or cls.name.endswith("Requester")


def _inventory(mod: ast.Module, modelled: List[ast.Try]) -> None:
    """fail loudly when aiohttp.py grows a requester class, a requester method, a module-level function
    or an `except` clause that the four extracted ladders do not cover"""
    covered = {id(h) for t in modelled for h in t.handlers}
    for n in mod.body:
        if isinstance(n, ast.ClassDef):
            if _is_requester(n):
                if n.name not in REQUESTER_METHODS:
                    raise Untranslatable(f"new requester class {n.name} (line {n.lineno}) is not modelled")
                meths = {f.name for f in n.body if isinstance(f, (ast.FunctionDef, ast.AsyncFunctionDef))}
                extra = meths - REQUESTER_METHODS[n.name]
                if extra:
                    raise Untranslatable(f"{n.name} has unmodelled method(s) {sorted(extra)}")
                for h in ast.walk(n):
                    if isinstance(h, ast.ExceptHandler) and id(h) not in covered:
                        raise Untranslatable(f"{n.name}: `except` clause at line {h.lineno} belongs to no modelled ladder")
                    if isinstance(h, ast.Try) and h not in modelled:
                        raise Untranslatable(f"{n.name}: try statement at line {h.lineno} is not a modelled ladder")
            elif n.name not in OTHER_CLASSES:
                raise Untranslatable(f"new class {n.name} (line {n.lineno}) in {SRC}: decide whether it is a requester")
        elif isinstance(n, (ast.FunctionDef, ast.AsyncFunctionDef)):
            if n.name not in MODULE_FUNCTIONS:
                raise Untranslatable(f"new module-level function {n.name} (line {n.lineno}) in {SRC}")
            for h in ast.walk(n):
                if isinstance(h, (ast.Try, ast.ExceptHandler)):
                    raise Untranslatable(f"{n.name}: try/except at line {h.lineno} in a header helper")
    for cname in REQUESTER_METHODS:
        _find_class(mod, cname)


# ---- traffic-logging blocks ---------------------------------------------------------------------------

def _is_name(e: ast.expr, *names: str) -> bool:
    return isinstance(e, ast.Name) and (not names or e.id in names)


def _log_arg_kind(e: ast.expr) -> str:
    """'safe' for expressions that cannot raise on str/bytes/int operands; 'decodeStrictBody' for
    `resp_body.decode()` / `.decode("utf-8")`; anything else that could raise is refused"""
    if isinstance(e, (ast.Constant, ast.Name)):
        return "safe"
    if isinstance(e, ast.BoolOp) and all(isinstance(v, (ast.Constant, ast.Name, ast.Dict)) for v in e.values):
        return "safe"                                                       # `body or ""`, `x or {}`
    if (isinstance(e, ast.Call) and isinstance(e.func, ast.Attribute) and e.func.attr == "join"
            and isinstance(e.func.value, ast.Constant) and len(e.args) == 1 and isinstance(e.args[0], ast.ListComp)):
        lc = e.args[0]                                                      # "\n".join([key + ": " + value for key, value in X.items()])
        ok_elt = (isinstance(lc.elt, ast.BinOp) and isinstance(lc.elt.op, ast.Add)
                  and all(isinstance(n, (ast.BinOp, ast.Name, ast.Constant, ast.Add, ast.Load)) for n in ast.walk(lc.elt)))
        gen = lc.generators[0] if len(lc.generators) == 1 else None
        ok_iter = (gen is not None and not gen.ifs and isinstance(gen.iter, ast.Call) and isinstance(gen.iter.func, ast.Attribute)
                   and gen.iter.func.attr == "items" and not gen.iter.args
                   and (isinstance(gen.iter.func.value, ast.Name) or _log_arg_kind(gen.iter.func.value) == "safe"))
        if ok_elt and ok_iter:
            return "safe"
    if (isinstance(e, ast.Call) and isinstance(e.func, ast.Attribute) and e.func.attr == "decode"
            and _is_name(e.func.value, "resp_body") and not e.keywords
            and (not e.args or (len(e.args) == 1 and isinstance(e.args[0], ast.Constant)
                                and str(e.args[0].value).lower().replace("-", "") == "utf8"))):
        return "decodeStrictBody"
    raise Untranslatable(f"line {e.lineno}: logging argument `{ast.unparse(e)}` is of no recognised shape (may raise)")


def _log_block(stmts: List[ast.stmt], where: str) -> List[str]:
    kinds: List[str] = []
    for st in stmts:
        if not (isinstance(st, ast.Expr) and isinstance(st.value, ast.Call) and isinstance(st.value.func, ast.Attribute)
                and _is_name(st.value.func.value, "_LOGGER_TRAFFIC_UPNP") and st.value.func.attr == "debug"
                and not st.value.keywords and st.value.args and isinstance(st.value.args[0], ast.Constant)):
            raise Untranslatable(f"line {st.lineno}: statement inside `if log_traffic:` is not `_LOGGER_TRAFFIC_UPNP.debug(fmt, …)`")
        ks = [_log_arg_kind(a) for a in st.value.args[1:]]
        risky = [k for k in ks if k != "safe"]
        if risky and where == "pre":
            raise Untranslatable(f"line {st.lineno}: raising logging statement outside the try")
        kinds.append(risky[0] if risky else "safe")
    return kinds


def _is_log_if(st: ast.stmt) -> bool:
    return isinstance(st, ast.If) and _is_name(st.test, "log_traffic") and not st.orelse


def _logging(fn: ast.AsyncFunctionDef, t: ast.Try) -> Tuple[List[str], List[str]]:
    """the `if log_traffic:` blocks of an inner request function: (before the try, inside it).  Every `if`
    of the function must be one of those (or `if self._with_sleep:`); the statements of the exchange inside the
    try are pinned to the shapes status/headers/read/log/text."""
    pre: List[str] = []
    post: List[str] = []
    for st in fn.body[: fn.body.index(t)]:
        if _is_log_if(st):
            pre += _log_block(st.body, "pre")
        elif isinstance(st, ast.If):
            if ast.unparse(st.test) != "self._with_sleep":
                raise Untranslatable(f"line {st.lineno}: unexpected `if {ast.unparse(st.test)}` before the try")
        elif isinstance(st, ast.Assign) and _is_name(st.targets[0], "log_traffic"):
            if ast.unparse(st.value) != "_LOGGER_TRAFFIC_UPNP.isEnabledFor(logging.DEBUG)":
                raise Untranslatable(f"line {st.lineno}: log_traffic is not the traffic logger's DEBUG test")
    # innermost `async with … as response:` body
    body = t.body
    while len(body) == 1 and isinstance(body[0], ast.AsyncWith):
        body = body[0].body
    for st in body:
        if _is_log_if(st):
            post += _log_block(st.body, "post")
        elif isinstance(st, (ast.Assign, ast.AnnAssign)):
            v = st.value
            tgt = ast.unparse(st.targets[0] if isinstance(st, ast.Assign) else st.target)
            want = {"status": "response.status", "resp_headers": "response.headers or {}",
                    "resp_body": "await response.read()", "resp_body_text": "await response.text()"}
            if tgt not in want or ast.unparse(v) != want[tgt]:
                raise Untranslatable(f"line {st.lineno}: `{ast.unparse(st)[:70]}` is not one of the four pinned bindings of the exchange")
            ok = (isinstance(v, ast.Attribute) and _is_name(v.value, "response")) \
                or (isinstance(v, ast.BoolOp) and all(isinstance(x, (ast.Attribute, ast.Dict)) for x in v.values)) \
                or (isinstance(v, ast.Await) and isinstance(v.value, ast.Call) and isinstance(v.value.func, ast.Attribute)
                    and _is_name(v.value.func.value, "response") and v.value.func.attr in ("read", "text")
                    and not v.value.args and not v.value.keywords)
            if not ok:
                raise Untranslatable(f"line {st.lineno}: unexpected statement `{ast.unparse(st)[:60]}` inside the exchange")
        else:
            raise Untranslatable(f"line {st.lineno}: unexpected statement `{ast.unparse(st)[:60]}` inside the exchange")
    return pre, post


def _load_exceptions(repo: Path):
    spec = importlib.util.spec_from_file_location("_c17_exceptions_probe", repo / EXC)
    mod = importlib.util.module_from_spec(spec)
    spec.loader.exec_module(mod)  # exceptions.py imports only stdlib + aiohttp
    return mod


def _resolve(name: str, excmod) -> type:
    import aiohttp

    if name in ("asyncio.TimeoutError", "TimeoutError"):
        return asyncio.TimeoutError
    if name == "UnicodeDecodeError":
        return UnicodeDecodeError
    if "." in name:
        raise Untranslatable(f"cannot resolve dotted class name {name}")
    if hasattr(excmod, name):
        return getattr(excmod, name)
    if hasattr(aiohttp, name):
        return getattr(aiohttp, name)
    import builtins

    if hasattr(builtins, name) and isinstance(getattr(builtins, name), type):
        return getattr(builtins, name)
    raise Untranslatable(f"unknown exception class {name}")


@extract.generator("C17Ladders")
def gen(repo: Path) -> str:
    from aiohttp import client_exceptions as ce

    mod = extract.parse(repo, SRC)
    plain_t = _single_try(_find_method(_find_class(mod, "AiohttpRequester"), "async_http_request"))
    sess = _find_class(mod, "AiohttpSessionRequester")
    inner_t = _single_try(_find_method(sess, "_async_http_request"))
    _covers_exchange(plain_t, "session")
    _covers_exchange(inner_t, "self._session")
    plain_fn = _find_method(_find_class(mod, "AiohttpRequester"), "async_http_request")
    inner_fn = _find_method(sess, "_async_http_request")
    log_plain = _logging(plain_fn, plain_t)
    log_inner = _logging(inner_fn, inner_t)
    plain = _ladder(plain_t, False)
    inner = _ladder(inner_t, False)
    outer = _find_method(sess, "async_http_request")
    retries, retry, final, args_retry, args_final = _session_outer(outer)
    _pre_try_pinned(plain_fn, plain_t)
    _pre_try_pinned(inner_fn, inner_t)
    args_plain_req = _request_call_args(plain_t)
    args_inner_req = _request_call_args(inner_t)
    outer_body = [st for st in outer.body if not (isinstance(st, ast.Expr) and isinstance(st.value, ast.Constant))]
    _inventory(mod, [plain_t, inner_t, outer_body[0].body[0], outer_body[1]])

    excmod = _load_exceptions(repo)
    excsrc = extract.parse(repo, EXC)
    classes: Dict[str, type] = {}

    def add(cls: type) -> str:
        nm = cls.__name__
        if nm in classes and classes[nm] is not cls:
            raise Untranslatable(f"two different classes named {nm}")
        classes[nm] = cls
        return nm

    transport = [add(asyncio.TimeoutError), add(UnicodeDecodeError)] + [add(getattr(ce, n)) for n in ce.__all__]
    for n in excsrc.body:
        if isinstance(n, ast.ClassDef) and isinstance(getattr(excmod, n.name, None), type) \
                and issubclass(getattr(excmod, n.name), BaseException):
            add(getattr(excmod, n.name))

    def conv(ladder):
        out = []
        for names, (kind, k, keep) in ladder:
            ids = [add(_resolve(nm, excmod)) for nm in names]
            kk = add(_resolve(k, excmod)) if k else None
            out.append((ids, kind, kk, keep))
        return out

    lp, li, lr, lf = conv(plain), conv(inner), conv(retry), conv(final)
    for v in list(NAMED.values()) + list(NAMED_EXTRA.values()):
        if v not in classes:
            add(_resolve(v, excmod))
    names = sorted(classes)
    idx = {n: i for i, n in enumerate(names)}

    def lean_ladder(l) -> str:
        rows = []
        for ids, kind, kk, keep in l:
            act = {"raise": f".raiseCls {idx[kk] if kk else 0} {'true' if keep else 'false'}",
                   "reraise": ".reraise", "swallow": ".swallow"}[kind]
            rows.append(f"({lean_list(str(idx[i]) for i in ids)}, {act})")
        return "[" + ",\n   ".join(rows) + "]"

    mro = []
    for n in names:
        sup = [str(idx[m]) for m in names if issubclass(classes[n], classes[m])]
        mro.append(f"  /- {idx[n]} {n} -/ {lean_list(sup)}")
    out = extract.HEADER.format(src=f"{SRC}, {EXC} (issubclass matrix by introspection)")
    out += "import Upnp.Model.C17Ladder\nnamespace Upnp.Gen.C17\nopen Upnp.C17\n\n"
    out += f"def classNames : List String :=\n  {lean_list(lean_str(n) for n in names)}\n\n"
    out += "/-- `supers[c]` = the classes of the set that `c` is a subclass of (itself included) -/\n"
    out += "def supers : List (List Nat) := [\n" + ",\n".join(mro) + "]\n\n"
    out += f"def ladderPlain : Ladder :=\n  {lean_ladder(lp)}\n\n"
    out += f"def ladderInner : Ladder :=\n  {lean_ladder(li)}\n\n"
    out += f"def ladderRetry : Ladder :=\n  {lean_ladder(lr)}\n\n"
    out += f"def ladderFinal : Ladder :=\n  {lean_ladder(lf)}\n\n"
    out += f"def sessionRetries : Nat := {retries}\n\n"
    out += "/-- classes a session can raise: asyncio.TimeoutError, UnicodeDecodeError, aiohttp.client_exceptions.__all__ -/\n"
    out += f"def transport : List Nat := {lean_list(str(idx[n]) for n in transport)}\n\n"
    def lean_block(b) -> str:
        f = lambda ks: lean_list("." + k for k in ks)
        return f"{{ pre := {f(b[0])}, post := {f(b[1])} }}"

    out += "/-- the `if log_traffic:` blocks (statement kinds) of the plain / session requester -/\n"
    out += f"def logPlain : LogBlock := {lean_block(log_plain)}\n"
    out += f"def logInner : LogBlock := {lean_block(log_inner)}\n\n"
    strs = lambda xs: lean_list(lean_str(x) + ".toList" for x in xs)
    out += "/-- argument lists (source text) of the two `self._async_http_request(...)` calls (retry loop, final attempt)\n"
    out += "    and of the `.request(...)` call of each requester -/\n"
    out += f"def retryCallArgs : List (List Char) := {strs(args_retry)}\n"
    out += f"def finalCallArgs : List (List Char) := {strs(args_final)}\n"
    out += f"def plainRequestArgs : List (List Char) := {strs(args_plain_req)}\n"
    out += f"def innerRequestArgs : List (List Char) := {strs(args_inner_req)}\n\n"
    out += "def tables : Tables where\n"
    out += "  supers := supers\n  plain := ladderPlain\n  inner := ladderInner\n  retry := ladderRetry\n  final := ladderFinal\n"
    out += "  retries := sessionRetries\n  transport := transport\n"
    out += "  logPlain := logPlain\n  logInner := logInner\n"
    for field, nm in NAMED_EXTRA.items():
        out += f"  {field} := {idx[nm]}  -- {nm}\n"
    for field, nm in NAMED.items():
        out += f"  {field} := {idx[nm]}  -- {nm}\n"
    out += "\nend Upnp.Gen.C17\n"
    return out
