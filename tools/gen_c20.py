"""C20 translator: profiles/igd.py -> lean/Upnp/Gen/C20Igd.lean.

Extracted with `ast` only (the module is not imported):
  * `IgdDevice._SERVICE_TYPES` (alias -> set of service types; emitted sorted, the run-time iteration
    order of the sets is supplied separately by the harness),
  * `IgdDevice.DEVICE_TYPES`,
  * one row per `async def async_*` facade method: the default alias list of `services = services or [...]`
    + `self._any_action(services, "X")`, or the alias of `self._action("ALIAS", "X")`, and the declared
    return annotation,
  * the fields (name, annotation) of every NamedTuple result class.
Any other shape raises Untranslatable.
"""
from __future__ import annotations

import ast
from pathlib import Path
from typing import List, Optional, Tuple

import extract
from extract import Untranslatable, lean_list, lean_str

SRC = "async_upnp_client/profiles/igd.py"
# facade methods that only aggregate other facade methods (no alias/action of their own)
AGGREGATORS = {"async_get_traffic_and_status_data"}


def chars(s: str) -> str:
    return lean_str(s) + ".toList"


def _str_const(node: ast.AST, what: str) -> str:
    if isinstance(node, ast.Constant) and isinstance(node.value, str):
        return node.value
    raise Untranslatable(f"{what}: expected a string literal, got {ast.dump(node)[:80]}")


def _str_list(node: ast.AST, what: str) -> List[str]:
    if isinstance(node, (ast.List, ast.Tuple, ast.Set)):
        return [_str_const(e, what) for e in node.elts]
    raise Untranslatable(f"{what}: expected a list/set literal of strings, got {ast.dump(node)[:80]}")


def _is_self_call(node: ast.AST, name: str) -> bool:
    return (isinstance(node, ast.Call) and isinstance(node.func, ast.Attribute) and node.func.attr == name
            and isinstance(node.func.value, ast.Name) and node.func.value.id == "self")


def _ann(node: Optional[ast.AST]) -> str:
    """`Optional[X]` -> X, `None` -> None, otherwise the unparsed annotation."""
    if node is None:
        raise Untranslatable("facade method without a return annotation")
    if isinstance(node, ast.Subscript) and isinstance(node.value, ast.Name) and node.value.id == "Optional":
        return ast.unparse(node.slice)
    return ast.unparse(node)


def _method_row(fn: ast.AsyncFunctionDef) -> Tuple[str, List[str], str, bool, str]:
    default: Optional[List[str]] = None
    found: List[Tuple[List[str], str, bool]] = []
    for node in ast.walk(fn):
        if isinstance(node, ast.Assign) and len(node.targets) == 1 and isinstance(node.targets[0], ast.Name) \
                and node.targets[0].id == "services":
            v = node.value
            if not (isinstance(v, ast.BoolOp) and isinstance(v.op, ast.Or) and len(v.values) == 2
                    and isinstance(v.values[0], ast.Name) and v.values[0].id == "services"):
                raise Untranslatable(f"{fn.name}: unrecognised assignment to `services`")
            default = _str_list(v.values[1], f"{fn.name}: default services")
        if _is_self_call(node, "_any_action"):
            if len(node.args) != 2 or not (isinstance(node.args[0], ast.Name) and node.args[0].id == "services"):
                raise Untranslatable(f"{fn.name}: unrecognised _any_action call")
            found.append(([], _str_const(node.args[1], f"{fn.name}: action name"), True))
        if _is_self_call(node, "_action"):
            if len(node.args) != 2:
                raise Untranslatable(f"{fn.name}: unrecognised _action call")
            found.append(([_str_const(node.args[0], f"{fn.name}: alias")],
                          _str_const(node.args[1], f"{fn.name}: action name"), False))
    if len(found) != 1:
        raise Untranslatable(f"{fn.name}: expected exactly one _action/_any_action call, found {len(found)}")
    aliases, action, via_any = found[0]
    if via_any:
        if default is None:
            raise Untranslatable(f"{fn.name}: _any_action without `services = services or [...]`")
        aliases = default
    return fn.name, aliases, action, via_any, _ann(fn.returns)


def _const_int(node: ast.AST, what: str) -> int:
    """integer constant expression: literals, `**`, `*`"""
    if isinstance(node, ast.Constant) and isinstance(node.value, int) and not isinstance(node.value, bool):
        return node.value
    if isinstance(node, ast.BinOp) and isinstance(node.op, (ast.Pow, ast.Mult)):
        a, b = _const_int(node.left, what), _const_int(node.right, what)
        return a ** b if isinstance(node.op, ast.Pow) else a * b
    raise Untranslatable(f"{what}: expected an integer constant expression, got {ast.dump(node)[:80]}")


COUNTER_GETTERS = ["async_get_total_bytes_received", "async_get_total_bytes_sent",
                   "async_get_total_packets_received", "async_get_total_packets_sent"]


def _getter_pin(fn: ast.AsyncFunctionDef):
    """`if total < 0: self._offset_x = C` and `return total + self._offset_x` -> (True, C)"""
    found = None
    for node in ast.walk(fn):
        if isinstance(node, ast.If) and isinstance(node.test, ast.Compare) and len(node.test.ops) == 1 \
                and isinstance(node.test.left, ast.Name) and len(node.body) == 1 and isinstance(node.body[0], ast.Assign) \
                and isinstance(node.body[0].targets[0], ast.Attribute) and node.body[0].targets[0].attr.startswith("_offset_"):
            if found is not None:
                raise Untranslatable(f"{fn.name}: more than one offset rule")
            lt0 = isinstance(node.test.ops[0], ast.Lt) and isinstance(node.test.comparators[0], ast.Constant) \
                and node.test.comparators[0].value == 0
            found = (lt0, _const_int(node.body[0].value, f"{fn.name}: offset"), node.test.left.id,
                     node.body[0].targets[0].attr)
    if found is None:
        raise Untranslatable(f"{fn.name}: offset rule `if total < 0: self._offset_x = C` not found")
    lt0, const, total, off = found
    ret_ok = any(isinstance(n, ast.Return) and isinstance(n.value, ast.BinOp) and isinstance(n.value.op, ast.Add)
                 and isinstance(n.value.left, ast.Name) and n.value.left.id == total
                 and isinstance(n.value.right, ast.Attribute) and n.value.right.attr == off for n in ast.walk(fn))
    if not ret_ok:
        raise Untranslatable(f"{fn.name}: `return {total} + self.{off}` not found")
    return lt0, const


def _derive_pin(mod: ast.Module):
    """`_derive_value_per_second`: wrap test, KiB divisor and the names it applies to, final division"""
    consts = {n.targets[0].id: n.value.value for n in mod.body
              if isinstance(n, ast.Assign) and isinstance(n.targets[0], ast.Name) and isinstance(n.value, ast.Constant)}
    fn = next((n for n in mod.body if isinstance(n, ast.FunctionDef) and n.name == "_derive_value_per_second"), None)
    if fn is None:
        raise Untranslatable("_derive_value_per_second not found")
    wrap = kib = names = None
    for node in ast.walk(fn):
        if isinstance(node, ast.If) and isinstance(node.test, ast.Compare) and len(node.test.ops) == 1:
            t = node.test
            if isinstance(t.ops[0], (ast.Gt, ast.GtE, ast.Lt, ast.LtE)) and isinstance(t.left, ast.Name) \
                    and isinstance(t.comparators[0], ast.Name) and {t.left.id, t.comparators[0].id} == {"last_value", "current_value"}:
                returns_none = len(node.body) == 1 and isinstance(node.body[0], ast.Return) and \
                    (node.body[0].value is None or (isinstance(node.body[0].value, ast.Constant) and node.body[0].value.value is None))
                wrap = returns_none and isinstance(t.ops[0], ast.Gt) and t.left.id == "last_value"
            if isinstance(t.ops[0], ast.In) and isinstance(t.left, ast.Name) and t.left.id == "value_name":
                names = [consts[e.id] if isinstance(e, ast.Name) else _str_const(e, "value names") for e in t.comparators[0].elts]
                a = node.body[0]
                if not (len(node.body) == 1 and isinstance(a, ast.Assign) and isinstance(a.value, ast.BinOp)
                        and isinstance(a.value.op, ast.Div) and isinstance(a.value.left, ast.Name) and a.value.left.id == "delta_value"):
                    raise Untranslatable("_derive_value_per_second: unrecognised KiB scaling")
                kib = _const_int(a.value.right, "KiB divisor")
    last = fn.body[-1]
    final_ok = isinstance(last, ast.Return) and isinstance(last.value, ast.BinOp) and isinstance(last.value.op, ast.Div) \
        and isinstance(last.value.left, ast.Name) and last.value.left.id == "delta_value" \
        and ast.unparse(last.value.right) == "delta_time.total_seconds()"
    if wrap is None or kib is None or names is None:
        raise Untranslatable("_derive_value_per_second: wrap test / KiB scaling not found")
    return bool(wrap), kib, names, final_ok


def _aggregator_pin(fn: ast.AsyncFunctionDef):
    """the `asyncio.gather(...)` of the poll: getters in order, return_exceptions, raise only without non-exceptions"""
    order = rexc = None
    raise_guard = False
    for node in ast.walk(fn):
        if isinstance(node, ast.Call) and isinstance(node.func, ast.Attribute) and node.func.attr == "gather":
            order = []
            for a in node.args:
                if not (isinstance(a, ast.Call) and isinstance(a.func, ast.Attribute) and isinstance(a.func.value, ast.Name)
                        and a.func.value.id == "self" and not a.args and not a.keywords):
                    raise Untranslatable("poll: unrecognised gather argument")
                order.append(a.func.attr)
            rexc = any(k.arg == "return_exceptions" and isinstance(k.value, ast.Constant) and k.value.value is True
                       for k in node.keywords)
        if isinstance(node, ast.If) and ast.unparse(node.test) == "not non_exceptions" \
                and any(isinstance(n, ast.Raise) for n in ast.walk(node)):
            raise_guard = True
    raises = [n for n in ast.walk(fn) if isinstance(n, ast.Raise)]
    if order is None:
        raise Untranslatable("poll: asyncio.gather not found")
    return order, bool(rexc), raise_guard and len(raises) == 1


@extract.generator("C20Igd")
def gen(repo: Path) -> str:
    mod = extract.parse(repo, SRC)
    igd = next((n for n in mod.body if isinstance(n, ast.ClassDef) and n.name == "IgdDevice"), None)
    if igd is None:
        raise Untranslatable("class IgdDevice not found")
    service_types = None
    device_types = None
    rows = []
    for node in igd.body:
        if isinstance(node, ast.Assign) and len(node.targets) == 1 and isinstance(node.targets[0], ast.Name):
            if node.targets[0].id == "_SERVICE_TYPES":
                if not isinstance(node.value, ast.Dict):
                    raise Untranslatable("_SERVICE_TYPES is not a dict literal")
                service_types = [(_str_const(k, "_SERVICE_TYPES key"), sorted(_str_list(v, "_SERVICE_TYPES value")))
                                 for k, v in zip(node.value.keys, node.value.values)]
            if node.targets[0].id == "DEVICE_TYPES":
                device_types = _str_list(node.value, "DEVICE_TYPES")
        if isinstance(node, ast.AsyncFunctionDef) and node.name.startswith("async_") and node.name not in AGGREGATORS:
            rows.append(_method_row(node))
        elif isinstance(node, ast.AsyncFunctionDef) and node.name in AGGREGATORS:
            pass
        elif isinstance(node, ast.FunctionDef) and node.name not in ("__init__", "_any_action"):
            raise Untranslatable(f"unexpected method {node.name} in IgdDevice")
    if service_types is None or device_types is None or not rows:
        raise Untranslatable("_SERVICE_TYPES / DEVICE_TYPES / facade methods not found")
    fns = {n.name: n for n in igd.body if isinstance(n, ast.AsyncFunctionDef)}
    getter_pins = [_getter_pin(fns[g]) for g in COUNTER_GETTERS if g in fns]
    if len(getter_pins) != 4 or "async_get_traffic_and_status_data" not in fns:
        raise Untranslatable("counter getters / poll not found")
    wrap, kib, kib_names, final_ok = _derive_pin(mod)
    order, rexc, raise_guard = _aggregator_pin(fns["async_get_traffic_and_status_data"])
    tuples = []
    for node in mod.body:
        if isinstance(node, ast.ClassDef) and any(isinstance(b, ast.Name) and b.id == "NamedTuple" for b in node.bases):
            fields = [(s.target.id, ast.unparse(s.annotation)) for s in node.body
                      if isinstance(s, ast.AnnAssign) and isinstance(s.target, ast.Name)]
            tuples.append((node.name, fields))

    out = [extract.HEADER.format(src=SRC), "import Upnp.Model.C20Igd\nnamespace Upnp.Gen.C20Igd\nopen Upnp.C20\n\n"]
    out.append("/-- `IgdDevice._SERVICE_TYPES`: alias ↦ service types (each set sorted) -/\n")
    out.append("def igdServiceTypes : List (S × List S) := [\n")
    out.append(",\n".join(f"  ({chars(a)}, {lean_list(chars(t) for t in tys)})" for a, tys in service_types))
    out.append("]\n\n/-- `IgdDevice.DEVICE_TYPES` -/\n")
    out.append(f"def igdDeviceTypes : List S := {lean_list(chars(t) for t in device_types)}\n\n")
    out.append("/-- one row per facade method: default aliases, action, `_any_action`?, declared result -/\n")
    out.append("def igdOps : List OpRow := [\n")
    out.append(",\n".join(
        f"  ⟨{chars(m)}, {lean_list(chars(a) for a in al)}, {chars(ac)}, {'true' if va else 'false'}, {chars(rt)}⟩"
        for m, al, ac, va, rt in rows))
    out.append("]\n\n/-- NamedTuple result classes: name ↦ field annotations -/\n")
    out.append("def igdTuples : List (S × List (S × S)) := [\n")
    out.append(",\n".join(
        f"  ({chars(n)}, {lean_list('(' + chars(f) + ', ' + chars(t) + ')' for f, t in fs)})" for n, fs in tuples))
    b = lambda x: "true" if x else "false"  # noqa: E731
    out.append("]\n\n/-- the arithmetic of the counter part as written in the source -/\n")
    out.append("def igdCounterPins : CounterPins :=\n")
    out.append(f"  {{ negTests := {lean_list(b(p[0]) for p in getter_pins)},\n")
    out.append(f"    offsets := {lean_list(str(p[1]) for p in getter_pins)},\n")
    out.append(f"    wrapTest := {b(wrap)}, kib := {kib}, kibNames := {lean_list(chars(n) for n in kib_names)},\n")
    out.append(f"    perSecond := {b(final_ok)}, gatherOrder := {lean_list(chars(m) for m in order)},\n")
    out.append(f"    returnExceptions := {b(rexc)}, raiseOnlyWithoutResult := {b(raise_guard)} }}\n")
    out.append("\nend Upnp.Gen.C20Igd\n")
    return "".join(out)
