"""C20 translator: profiles/igd.py -> lean/Upnp/Gen/C20Igd.lean.

Extracted with `ast` only (the module is not imported):
  * `IgdDevice._SERVICE_TYPES` (alias -> set of service types; emitted sorted, the run-time iteration
    order of the sets is supplied separately by the harness),
  * `IgdDevice.DEVICE_TYPES`,
  * one row per `async def async_*` facade method: the default alias list of `services = services or [...]`
    + `self._any_action(services, "X")`, or the alias of `self._action("ALIAS", "X")`, and the declared
    return annotation,
  * the fields (name, annotation) of every NamedTuple result class.
Any other shape raises Untranslatable.
"""
from __future__ import annotations

import ast
from pathlib import Path
from typing import List, Optional, Tuple

import extract
from extract import Untranslatable, lean_list, lean_str

SRC = "async_upnp_client/profiles/igd.py"
# facade methods that only aggregate other facade methods (no alias/action of their own)
AGGREGATORS = {"async_get_traffic_and_status_data"}


def chars(s: str) -> str:
    return lean_str(s) + ".toList"


def _str_const(node: ast.AST, what: str) -> str:
    if isinstance(node, ast.Constant) and isinstance(node.value, str):
        return node.value
    raise Untranslatable(f"{what}: expected a string literal, got {ast.dump(node)[:80]}")


def _str_list(node: ast.AST, what: str) -> List[str]:
    if isinstance(node, (ast.List, ast.Tuple, ast.Set)):
        return [_str_const(e, what) for e in node.elts]
    raise Untranslatable(f"{what}: expected a list/set literal of strings, got {ast.dump(node)[:80]}")


def _is_self_call(node: ast.AST, name: str) -> bool:
    return (isinstance(node, ast.Call) and isinstance(node.func, ast.Attribute) and node.func.attr == name
            and isinstance(node.func.value, ast.Name) and node.func.value.id == "self")


def _ann(node: Optional[ast.AST]) -> str:
    """`Optional[X]` -> X, `None` -> None, otherwise the unparsed annotation."""
    if node is None:
        raise Untranslatable("facade method without a return annotation")
    if isinstance(node, ast.Subscript) and isinstance(node.value, ast.Name) and node.value.id == "Optional":
        return ast.unparse(node.slice)
    return ast.unparse(node)


def _method_row(fn: ast.AsyncFunctionDef) -> Tuple[str, List[str], str, bool, str]:
    default: Optional[List[str]] = None
    found: List[Tuple[List[str], str, bool]] = []
    for node in ast.walk(fn):
        if isinstance(node, ast.Assign) and len(node.targets) == 1 and isinstance(node.targets[0], ast.Name) \
                and node.targets[0].id == "services":
            v = node.value
            if not (isinstance(v, ast.BoolOp) and isinstance(v.op, ast.Or) and len(v.values) == 2
                    and isinstance(v.values[0], ast.Name) and v.values[0].id == "services"):
                raise Untranslatable(f"{fn.name}: unrecognised assignment to `services`")
            default = _str_list(v.values[1], f"{fn.name}: default services")
        if _is_self_call(node, "_any_action"):
            if len(node.args) != 2 or not (isinstance(node.args[0], ast.Name) and node.args[0].id == "services"):
                raise Untranslatable(f"{fn.name}: unrecognised _any_action call")
            found.append(([], _str_const(node.args[1], f"{fn.name}: action name"), True))
        if _is_self_call(node, "_action"):
            if len(node.args) != 2:
                raise Untranslatable(f"{fn.name}: unrecognised _action call")
            found.append(([_str_const(node.args[0], f"{fn.name}: alias")],
                          _str_const(node.args[1], f"{fn.name}: action name"), False))
    if len(found) != 1:
        raise Untranslatable(f"{fn.name}: expected exactly one _action/_any_action call, found {len(found)}")
    aliases, action, via_any = found[0]
    if via_any:
        if default is None:
            raise Untranslatable(f"{fn.name}: _any_action without `services = services or [...]`")
        aliases = default
    return fn.name, aliases, action, via_any, _ann(fn.returns)


@extract.generator("C20Igd")
def gen(repo: Path) -> str:
    mod = extract.parse(repo, SRC)
    igd = next((n for n in mod.body if isinstance(n, ast.ClassDef) and n.name == "IgdDevice"), None)
    if igd is None:
        raise Untranslatable("class IgdDevice not found")
    service_types = None
    device_types = None
    rows = []
    for node in igd.body:
        if isinstance(node, ast.Assign) and len(node.targets) == 1 and isinstance(node.targets[0], ast.Name):
            if node.targets[0].id == "_SERVICE_TYPES":
                if not isinstance(node.value, ast.Dict):
                    raise Untranslatable("_SERVICE_TYPES is not a dict literal")
                service_types = [(_str_const(k, "_SERVICE_TYPES key"), sorted(_str_list(v, "_SERVICE_TYPES value")))
                                 for k, v in zip(node.value.keys, node.value.values)]
            if node.targets[0].id == "DEVICE_TYPES":
                device_types = _str_list(node.value, "DEVICE_TYPES")
        if isinstance(node, ast.AsyncFunctionDef) and node.name.startswith("async_") and node.name not in AGGREGATORS:
            rows.append(_method_row(node))
        elif isinstance(node, ast.AsyncFunctionDef) and node.name in AGGREGATORS:
            pass
        elif isinstance(node, ast.FunctionDef) and node.name not in ("__init__", "_any_action"):
            raise Untranslatable(f"unexpected method {node.name} in IgdDevice")
    if service_types is None or device_types is None or not rows:
        raise Untranslatable("_SERVICE_TYPES / DEVICE_TYPES / facade methods not found")
    tuples = []
    for node in mod.body:
        if isinstance(node, ast.ClassDef) and any(isinstance(b, ast.Name) and b.id == "NamedTuple" for b in node.bases):
            fields = [(s.target.id, ast.unparse(s.annotation)) for s in node.body
                      if isinstance(s, ast.AnnAssign) and isinstance(s.target, ast.Name)]
            tuples.append((node.name, fields))

    out = [extract.HEADER.format(src=SRC), "import Upnp.Model.C20Igd\nnamespace Upnp.Gen.C20Igd\nopen Upnp.C20\n\n"]
    out.append("/-- `IgdDevice._SERVICE_TYPES`: alias ↦ service types (each set sorted) -/\n")
    out.append("def igdServiceTypes : List (S × List S) := [\n")
    out.append(",\n".join(f"  ({chars(a)}, {lean_list(chars(t) for t in tys)})" for a, tys in service_types))
    out.append("]\n\n/-- `IgdDevice.DEVICE_TYPES` -/\n")
    out.append(f"def igdDeviceTypes : List S := {lean_list(chars(t) for t in device_types)}\n\n")
    out.append("/-- one row per facade method: default aliases, action, `_any_action`?, declared result -/\n")
    out.append("def igdOps : List OpRow := [\n")
    out.append(",\n".join(
        f"  ⟨{chars(m)}, {lean_list(chars(a) for a in al)}, {chars(ac)}, {'true' if va else 'false'}, {chars(rt)}⟩"
        for m, al, ac, va, rt in rows))
    out.append("]\n\n/-- NamedTuple result classes: name ↦ field annotations -/\n")
    out.append("def igdTuples : List (S × List (S × S)) := [\n")
    out.append(",\n".join(
        f"  ({chars(n)}, {lean_list('(' + chars(f) + ', ' + chars(t) + ')' for f, t in fs)})" for n, fs in tuples))
    out.append("]\n\nend Upnp.Gen.C20Igd\n")
    return "".join(out)
