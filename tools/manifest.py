"""Regenerate MANIFEST.json from the harness modules present (each defines MANIFEST = {...}) and
known_findings.json from known_findings.d/*.json.  Properties without a harness are listed under
not_applicable with the reason given in NOT_BUILT (edit there)."""
import importlib
import json
import sys
from pathlib import Path

VERIF = Path(__file__).resolve().parent.parent
sys.path.insert(0, str(VERIF))

NOT_BUILT_REASON = "not claimed yet: model, theorems and correspondence harness for this property are still being built (no technical obstacle; see DESIGN.md §5)"
NOT_APPLICABLE = {}
# built but temporarily not claimed (being adapted to a change merged from another property)
PENDING = {}


def main() -> None:
    props = [json.loads(l)["id"] for l in (VERIF / "properties.jsonl").read_text().splitlines() if l.strip()]
    checks, na, served = [], [], []
    for pid in props:
        hp = VERIF / "harness" / f"{pid.lower()}.py"
        pp = VERIF / "lean" / "Upnp" / "Props" / f"{pid}.lean"
        if pid in PENDING:
            na.append({"property_id": pid, "reason": PENDING[pid]})
            continue
        if pid in NOT_APPLICABLE:
            na.append({"property_id": pid, "reason": NOT_APPLICABLE[pid]})
            continue
        if not (hp.exists() and pp.exists()):
            na.append({"property_id": pid, "reason": NOT_BUILT_REASON})
            continue
        mod = importlib.import_module(f"harness.{pid.lower()}")
        m = mod.MANIFEST
        served.append(pid)
        checks.append({
            "property_id": pid,
            "quick_cmd": f"./check {pid} --tier quick",
            "thorough_cmd": f"./check {pid} --tier thorough",
            "evidence_file": f"evidence/{pid}.json",
            "replay_cmd_template": f"./check {pid} --replay {{path}}",
            "engine": "lean-proof+correspondence",
            "level_claimed": {"category": "proof", "text": m["text"], "design_ref": m.get("design_ref", f"§5 {pid}")},
            "level_note": m["note"],
            "technique": m.get("technique", "Lean 4 proof + model/implementation correspondence"),
        })
    man = {
        "version": 1,
        "setup_cmd": "cd /verif && ./check --setup",
        "hooks": {
            "guard": "ASYNC_UPNP_CLIENT_VERIF",
            "enable": "none needed: the harness drives the real code in-process through fakes and monkey-patched module attributes; ./check sets the guard variable but no source line reads it",
            "baseline_off_cmd": "/verif/tools/baseline.sh /repo",
            "source_commits": [],
            "add_only": True,
        },
        "engines": [{
            "name": "lean-proof+correspondence", "path": "check", "serves_properties": served,
            "kind_free_text": "Lean 4 theorems over executable models (lean/Upnp); tables regenerated from /repo on every run by tools/extract.py; differential correspondence of model vs real code through a compiled Lean driver that also judges implementation traces with the property predicate",
        }],
        "checks": checks,
        "not_applicable": na,
        "notes": "Every check is `./check Cxx`: extract -> lake build theorems+driver -> axiom audit -> harness on /repo -> Lean driver (correspondence + judge) -> decision (DESIGN.md §2.4).",
    }
    (VERIF / "MANIFEST.json").write_text(json.dumps(man, indent=1) + "\n")
    # known findings: union of fragments
    frags = []
    d = VERIF / "known_findings.d"
    if d.exists():
        for f in sorted(d.glob("*.json")):
            frags.extend(json.loads(f.read_text()).get("findings", []))
    (VERIF / "known_findings.json").write_text(json.dumps({
        "_doc": "open: printed as KNOWN-FINDING and not failed on; fixed: 'fixed: property=<id> <commit> <what failed>' (suppresses nothing). Generated from known_findings.d/*.json by tools/manifest.py; never written at check time.",
        "findings": frags}, indent=1) + "\n")
    print(f"MANIFEST: {len(checks)} checks, {len(na)} not_applicable; findings: {len(frags)}")


if __name__ == "__main__":
    main()
