#!/bin/bash
# usage: tools/runall.sh [tier] [seed] [props...]   — runs the checks in parallel (4 at a time), prints one line each
TIER="${1:-quick}"; SEED="${2:-0}"; shift; shift
cd "$(dirname "$0")/.."
PROPS="$@"
if [ -z "$PROPS" ]; then PROPS=$(ls harness | grep -E '^c[0-9]+\.py$' | sed 's/\.py//' | tr a-z A-Z); fi
mkdir -p .work/runall
run() { p=$1; VERIF_SEED=$SEED timeout 2400 ./check $p --tier $TIER > .work/runall/$p.$TIER.$SEED.log 2>&1; rc=$?; echo "$p rc=$rc $(grep -v condarc .work/runall/$p.$TIER.$SEED.log | tail -1)"; grep -E "^(VIOLATION|KNOWN-FINDING|INFRA|TIMEOUT)" .work/runall/$p.$TIER.$SEED.log | head -5; }
export -f run; export TIER SEED
echo $PROPS | tr ' ' '\n' | xargs -P 4 -I{} bash -c 'run {}'
