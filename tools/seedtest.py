#!/usr/bin/env python3
"""Run a seeded change (seeded/<id>/patch.diff + demo.py + meta.json) against the checks.

  tools/seedtest.py seeded/<id> [--tier quick|thorough] [--props C16,C01]

Creates a scratch worktree of /repo under /tmp, verifies the demonstration passes without and
fails with the patch, applies the patch, runs `VERIF_REPO=<scratch> ./check <prop>` for the
property in meta.json (or --props), prints the verdict, removes the worktree."""
import argparse
import json
import os
import subprocess
import sys
from pathlib import Path

VERIF = Path(__file__).resolve().parent.parent


def sh(cmd, **kw):
    return subprocess.run(cmd, shell=True, capture_output=True, text=True, **kw)


def main():
    ap = argparse.ArgumentParser()
    ap.add_argument("dir")
    ap.add_argument("--tier", default="quick")
    ap.add_argument("--props")
    ap.add_argument("--base", default="HEAD")
    ap.add_argument("--others", action="store_true", help="when the property's own check misses it, run every other check too")
    ap.add_argument("--tests", action="store_true", help="also run the pinned baseline on the patched tree")
    ap.add_argument("--record", action="store_true", help="write the outcome into <dir>/meta.json under 'verified'")
    a = ap.parse_args()
    d = Path(a.dir).resolve()
    meta = json.loads((d / "meta.json").read_text())
    props = a.props.split(",") if a.props else [meta["property"]]
    # demonstrations assert the checkout path they were written against: /tmp/mut-<property id>
    # (".st" suffix: still satisfies the demonstrations' startswith() assertion without colliding with
    # a mutation author's live worktree at /tmp/mut-<property id>)
    wt = Path(meta.get("worktree") or f"/tmp/mut-{meta['property'].lower()}")
    if wt.exists():  # a mutation author is working there right now
        wt = Path(str(wt) + ".st")
    if wt.exists():
        sh(f"git -C /repo worktree remove --force {wt}")
    sh(f"git -C /repo worktree add -q --detach {wt} {a.base}")
    try:
        env = {**os.environ, "PYTHONPATH": str(wt)}
        demo = d / "demo.py"
        r0 = sh(f"cd {wt} && /venv/bin/python {demo}", env=env)
        ap_ = sh(f"git -C {wt} apply {d/'patch.diff'}")
        if ap_.returncode != 0:  # the tree moved on since the change was written: try a 3-way merge
            ap_ = sh(f"git -C {wt} apply --3way {d/'patch.diff'} && git -C {wt} reset -q")
        if ap_.returncode != 0:
            print("PATCH DOES NOT APPLY:", ap_.stderr[-500:])
            return 2
        r1 = sh(f"cd {wt} && /venv/bin/python {demo}", env=env)
        print(f"demo without patch: rc={r0.returncode}; with patch: rc={r1.returncode}")
        record = {"base": sh(f"git -C {wt} rev-parse --short HEAD").stdout.strip(),
                  "demo_rc_unpatched": r0.returncode, "demo_rc_patched": r1.returncode, "checks": {}}
        if a.tests:
            t = sh(f"{VERIF}/tools/baseline.sh {wt}")
            line = [l for l in t.stdout.splitlines() if l.startswith("baseline:")]
            print("tests with patch:", line[-1] if line else t.stdout[-300:])
            record["baseline_with_patch"] = line[-1] if line else "?"
        ok = True
        for p in props:
            r = sh(f"cd {VERIF} && VERIF_EVIDENCE_DIR={VERIF}/.work/seed-evidence VERIF_REPO={wt} timeout 1500 ./check {p} --tier {a.tier}")
            lines = [l for l in r.stdout.splitlines() if "condarc" not in l]
            viol = [l for l in lines if l.startswith("VIOLATION")]
            print(f"{p}: rc={r.returncode} violations={len(viol)}")
            for l in viol[:3] + lines[-1:]:
                print("   ", l)
            ok = ok and r.returncode == 1 and bool(viol)
            record["checks"][p] = {"tier": a.tier, "rc": r.returncode, "violation_lines": len(viol),
                                   "no_failing_input_found": any("no-failing-input-found" in l for l in viol),
                                   "summary": lines[-1] if lines else ""}
        if not ok and a.others:
            allp = sorted(p.stem.upper() for p in (VERIF / "harness").glob("c[0-9][0-9].py"))
            for p in [q for q in allp if q not in props]:
                r = sh(f"cd {VERIF} && VERIF_EVIDENCE_DIR={VERIF}/.work/seed-evidence VERIF_REPO={wt} timeout 1500 ./check {p} --tier {a.tier}")
                lines = [l for l in r.stdout.splitlines() if "condarc" not in l]
                viol = [l for l in lines if l.startswith("VIOLATION")]
                if r.returncode != 0:
                    print(f"   other check {p}: rc={r.returncode} violations={len(viol)}")
                    record["checks"][p] = {"tier": a.tier, "rc": r.returncode, "violation_lines": len(viol),
                                           "no_failing_input_found": any("no-failing-input-found" in l for l in viol),
                                           "summary": lines[-1] if lines else ""}
                    if r.returncode == 1 and viol:
                        ok = True
            record["caught_by_other_check_only"] = ok
        print("CAUGHT" if ok else "MISSED")
        record["caught"] = ok
        if a.record:
            prev = meta.get("verified", {})
            if "baseline_with_patch" not in record and "baseline_with_patch" in prev:
                # the pinned baseline was run with this patch when it was first verified; not repeated now
                record["baseline_with_patch"] = prev["baseline_with_patch"]
                record["baseline_from_base"] = prev.get("baseline_from_base", prev.get("base"))
            meta["verified"] = record
            (d / "meta.json").write_text(json.dumps(meta, indent=1) + "\n")
        return 0 if ok else 1
    finally:
        sh(f"git -C /repo worktree remove --force {wt}")
        # the runs above regenerated lean/Upnp/Gen from the patched tree: restore it from /repo
        sh(f"/venv/bin/python {VERIF}/tools/extract.py /repo")


if __name__ == "__main__":
    sys.exit(main())
