#!/usr/bin/env python3
"""Run a seeded change (seeded/<id>/patch.diff + demo.py + meta.json) against the checks.

  tools/seedtest.py seeded/<id> [--tier quick|thorough] [--props C16,C01]

Creates a scratch worktree of /repo under /tmp, verifies the demonstration passes without and
fails with the patch, applies the patch, runs `VERIF_REPO=<scratch> ./check <prop>` for the
property in meta.json (or --props), prints the verdict, removes the worktree."""
import argparse
import json
import os
import subprocess
import sys
from pathlib import Path

VERIF = Path(__file__).resolve().parent.parent


def sh(cmd, **kw):
    return subprocess.run(cmd, shell=True, capture_output=True, text=True, **kw)


def main():
    ap = argparse.ArgumentParser()
    ap.add_argument("dir")
    ap.add_argument("--tier", default="quick")
    ap.add_argument("--props")
    ap.add_argument("--base", default="HEAD")
    a = ap.parse_args()
    d = Path(a.dir).resolve()
    meta = json.loads((d / "meta.json").read_text())
    props = a.props.split(",") if a.props else [meta["property"]]
    wt = Path(f"/tmp/seedtest-{os.getpid()}")
    sh(f"git -C /repo worktree add -q --detach {wt} {a.base}")
    try:
        env = {**os.environ, "PYTHONPATH": str(wt)}
        demo = d / "demo.py"
        r0 = sh(f"cd {wt} && /venv/bin/python {demo}", env=env)
        ap_ = sh(f"git -C {wt} apply {d/'patch.diff'}")
        if ap_.returncode != 0:
            print("PATCH DOES NOT APPLY:", ap_.stderr[-500:])
            return 2
        r1 = sh(f"cd {wt} && /venv/bin/python {demo}", env=env)
        print(f"demo without patch: rc={r0.returncode}; with patch: rc={r1.returncode}")
        ok = True
        for p in props:
            r = sh(f"cd {VERIF} && VERIF_REPO={wt} timeout 1500 ./check {p} --tier {a.tier}")
            lines = [l for l in r.stdout.splitlines() if "condarc" not in l]
            viol = [l for l in lines if l.startswith("VIOLATION")]
            print(f"{p}: rc={r.returncode} violations={len(viol)}")
            for l in viol[:3] + lines[-1:]:
                print("   ", l)
            ok = ok and r.returncode == 1 and bool(viol)
        print("CAUGHT" if ok else "MISSED")
        return 0 if ok else 1
    finally:
        sh(f"git -C /repo worktree remove --force {wt}")


if __name__ == "__main__":
    sys.exit(main())
