"""Verification pipeline shared by all properties (see DESIGN.md §2.4, §3).

  extract (source -> lean/Upnp/Gen)  ->  lake build (theorems + driver)  ->  axiom audit
  -> harness (real code, in-process)  ->  Lean driver (model replay + judge)  -> decision -> evidence

A broken obligation (extraction, theorem, correspondence) is not by itself a
violation: the failing-input search runs the thorough generator and looks for an
implementation trace the Lean judge rejects.  Exit codes: 0 ok, 1 violation, 2 infrastructure
failure / timeout.
"""
from __future__ import annotations

import fcntl
import hashlib
import importlib
import json
import os
import random
import re
import shutil
import subprocess
import sys
import time
from dataclasses import dataclass, field
from pathlib import Path
from typing import Any, Callable, Dict, List, Optional

VERIF = Path(__file__).resolve().parent.parent
REPO = Path(os.environ.get("VERIF_REPO", "/repo")).resolve()
LEAN = VERIF / "lean"
DRIVER = LEAN / ".lake" / "build" / "bin" / "driver"
GUARD = "ASYNC_UPNP_CLIENT_VERIF"
DRIVER_TIMEOUT = 1500
STD_AXIOMS = {"propext", "Classical.choice", "Quot.sound"}
FORBIDDEN = re.compile(
    r"\b(sorry|admit|native_decide|bv_decide|implemented_by|unsafe|maxHeartbeats\s+0)\b|^\s*axiom\s", re.M
)
TRUSTED_BASE = [
    "Lean 4.33.0 kernel (lake build; thorough tier re-checks with leanchecker)",
    "axioms allowed in property theorems: propext, Classical.choice, Quot.sound (audited by #print axioms each run); no sorry/admit/native_decide/bv_decide/own axioms",
    "tools/extract.py (Python ast -> Lean tables) prints what it parsed; unknown shapes make it fail loudly",
    "correspondence harness (fakes, virtual-time loop, canonicalisation) ties the hand-written model to /repo on the sampled histories only",
]


def activate_repo() -> None:
    """Make `import async_upnp_client` resolve to REPO's working tree, hooks enabled."""
    os.environ[GUARD] = "1"
    p = str(REPO)
    if p in sys.path:
        sys.path.remove(p)
    sys.path.insert(0, p)
    for name in list(sys.modules):
        if name == "async_upnp_client" or name.startswith("async_upnp_client."):
            del sys.modules[name]
    import async_upnp_client  # noqa: F401

    got = Path(async_upnp_client.__file__).resolve()
    if REPO not in got.parents:
        raise RuntimeError(f"async_upnp_client imported from {got}, expected under {REPO}")


@dataclass
class Case:
    """One explored case: the lines sent to the Lean driver (operations interleaved with the
    implementation's observations) and a JSON recipe from which the harness can re-run it."""

    cid: str
    lines: List[str]
    recipe: Any = None
    nontrivial: bool = True
    tags: List[str] = field(default_factory=list)  # generator-distribution labels


@dataclass
class Verdict:
    cid: str
    corr_ok: bool
    judge_ok: bool
    notes: str


@dataclass
class Ctx:
    prop: str
    tier: str
    seed: int
    work: Path
    deadline: float
    rng: random.Random = None  # type: ignore

    def __post_init__(self) -> None:
        if self.rng is None:
            self.rng = random.Random(self.seed * 1000003 + int(self.prop[1:]))

    @property
    def thorough(self) -> bool:
        return self.tier == "thorough"

    def time_left(self) -> float:
        return self.deadline - time.time()


class Infra(Exception):
    """Infrastructure failure (exit 2)."""


# ----------------------------------------------------------------------------------------------
# Lean side


def _lake_lock():
    f = open(LEAN / ".lake-lock", "w")
    fcntl.flock(f, fcntl.LOCK_EX)
    return f


def run_extract() -> Dict[str, str]:
    """Regenerate lean/Upnp/Gen/*.lean from REPO (and the generated Driver.lean / Upnp.lean).
    Returns {module: 'ok' | error text}."""
    sys.path.insert(0, str(VERIF / "tools"))
    try:
        extract = importlib.import_module("extract")
        gen_driver = importlib.import_module("gen_driver")
    finally:
        sys.path.pop(0)
    lock = _lake_lock()
    try:
        gen_driver.run()
        return extract.run(REPO, LEAN / "Upnp" / "Gen")
    finally:
        lock.close()


def lake_build(targets: List[str], timeout: float = 1500) -> (bool, str):
    lock = _lake_lock()
    try:
        p = subprocess.run(
            ["lake", "build", *targets], cwd=LEAN, capture_output=True, text=True, timeout=timeout
        )
        return p.returncode == 0, p.stdout + p.stderr
    finally:
        lock.close()


def theorems_of(prop: str) -> List[str]:
    """Fully qualified names of the property theorems in Props/<prop>.lean."""
    src = (LEAN / "Upnp" / "Props" / f"{prop}.lean").read_text()
    ns: List[str] = []
    out = []
    for line in src.splitlines():
        m = re.match(r"^namespace\s+(\S+)", line)
        if m:
            ns.append(m.group(1))
            continue
        m = re.match(r"^end\s+(\S+)", line)
        if m and ns and ns[-1].split(".")[-1] == m.group(1).split(".")[-1]:
            ns.pop()
            continue
        m = re.match(r"^(?:@\[[^\]]*\]\s*)?(?:protected\s+|private\s+)?theorem\s+(\S+)", line)
        if m:
            out.append(".".join(ns + [m.group(1)]))
    return out


def lean_sources_of(prop: str) -> List[Path]:
    """Props/<prop>.lean and everything under Upnp/ it transitively imports."""
    seen: Dict[str, Path] = {}
    todo = [f"Upnp.Props.{prop}"]
    while todo:
        mod = todo.pop()
        if mod in seen:
            continue
        path = LEAN / (mod.replace(".", "/") + ".lean")
        if not path.exists():
            continue
        seen[mod] = path
        for m in re.finditer(r"^import\s+(Upnp\.\S+)", path.read_text(), re.M):
            todo.append(m.group(1))
    return list(seen.values())


def strip_comments(src: str) -> str:
    src = re.sub(r"/-.*?-/", "", src, flags=re.S)
    return re.sub(r"--.*", "", src)


def audit(prop: str, work: Path) -> Dict[str, Any]:
    """Forbidden-token grep over the transitive sources + `#print axioms` of every property theorem."""
    res: Dict[str, Any] = {"forbidden": [], "axioms": {}, "ok": True}
    for path in lean_sources_of(prop):
        for m in FORBIDDEN.finditer(strip_comments(path.read_text())):
            res["forbidden"].append(f"{path.relative_to(LEAN)}: {m.group(0).strip()}")
    thms = theorems_of(prop)
    af = work / f"Audit_{prop}.lean"
    af.write_text(f"import Upnp.Props.{prop}\n" + "".join(f"#print axioms {t}\n" for t in thms))
    lock = _lake_lock()
    try:
        p = subprocess.run(["lake", "env", "lean", str(af)], cwd=LEAN, capture_output=True, text=True, timeout=600)
    finally:
        lock.close()
    out = p.stdout + p.stderr
    for t in thms:
        m = re.search(re.escape(f"'{t}'") + r" depends on axioms: \[([^\]]*)\]", out, re.S)
        if m:
            res["axioms"][t] = sorted(a.strip() for a in m.group(1).replace("\n", " ").split(",") if a.strip())
        elif re.search(re.escape(f"'{t}'") + r" does not depend on any axioms", out):
            res["axioms"][t] = []
        else:
            res["axioms"][t] = None
    bad = [t for t, ax in res["axioms"].items() if ax is None or not set(ax) <= STD_AXIOMS]
    if p.returncode != 0 or bad or res["forbidden"]:
        res["ok"] = False
        res["log"] = out[-3000:]
        res["bad_theorems"] = bad
    return res


def failing_theorems(prop: str, log: str) -> List[str]:
    """Map `error:` positions in a build log to the enclosing theorem names."""
    out: List[str] = []
    for m in re.finditer(r"error: (\S+?\.lean):(\d+):\d+", log):
        path = LEAN / m.group(1) if not m.group(1).startswith("/") else Path(m.group(1))
        line = int(m.group(2))
        name = f"{path.name}:{line}"
        try:
            lines = path.read_text().splitlines()
            for i in range(min(line, len(lines)) - 1, -1, -1):
                mm = re.match(r"^(?:@\[[^\]]*\]\s*)?(?:theorem|lemma|def|example|instance)\s+(\S+)", lines[i])
                if mm:
                    name = f"{path.stem}.{mm.group(1)}"
                    break
        except OSError:
            pass
        if name not in out:
            out.append(name)
    return out or ["<build failed; see log>"]


def run_driver(prop: str, cases: List[Case], work: Path) -> Dict[str, Verdict]:
    if not DRIVER.exists():
        raise Infra("driver binary missing")
    text = "\n".join("\n".join([f"case {c.cid}", *c.lines, "end"]) for c in cases) + "\n"
    (work / "ops.txt").write_text(text)
    p = subprocess.run([str(DRIVER), prop], input=text, capture_output=True, text=True, timeout=DRIVER_TIMEOUT)
    (work / "driver.out").write_text(p.stdout + p.stderr)
    verdicts: Dict[str, Verdict] = {}
    done = None
    for line in p.stdout.splitlines():
        m = re.match(r"^case (\S+) corr=(\S+) judge=(\S+) ?(.*)$", line)
        if m:
            verdicts[m.group(1)] = Verdict(m.group(1), m.group(2) == "ok", m.group(3) == "ok", m.group(4))
        m = re.match(r"^done (\d+)$", line)
        if m:
            done = int(m.group(1))
    if p.returncode != 0 or done != len(cases) or len(verdicts) != len(cases):
        raise Infra(f"driver failed rc={p.returncode} done={done} cases={len(cases)} verdicts={len(verdicts)}: {p.stderr[-500:]}")
    return verdicts


# ----------------------------------------------------------------------------------------------
# known findings


def load_findings(prop: str) -> List[dict]:
    """known_findings.json (generated union) plus the fragments in known_findings.d/ (read-only)."""
    out: Dict[str, dict] = {}
    files = [VERIF / "known_findings.json"] + sorted((VERIF / "known_findings.d").glob("*.json"))
    for f in files:
        if f.exists():
            for e in json.loads(f.read_text()).get("findings", []):
                if e.get("property") == prop:
                    out[e["id"]] = e
    return list(out.values())


def match_finding(findings: List[dict], signature: str) -> Optional[dict]:
    for e in findings:
        if e.get("status") == "open" and re.search(e["signature_regex"], signature):
            return e
    return None


# ----------------------------------------------------------------------------------------------
# shrinking (delta debugging over recipe["ops"])


def shrink(harness, ctx: Ctx, case: Case, still_bad: Callable[[Verdict], bool], budget_s: float = 40) -> Case:
    rec = case.recipe
    if not isinstance(rec, dict) or not isinstance(rec.get("ops"), list) or not hasattr(harness, "run_recipe"):
        return case
    best = case
    ops = list(rec["ops"])
    t0 = time.time()
    n = 2
    while len(ops) >= 2 and time.time() - t0 < budget_s:
        chunk = max(1, len(ops) // n)
        reduced = False
        for i in range(0, len(ops), chunk):
            cand = ops[:i] + ops[i + chunk :]
            if not cand:
                continue
            try:
                c = harness.run_recipe(ctx, {**rec, "ops": cand}, cid="shrink")
                v = run_driver(ctx.prop, [c], ctx.work)["shrink"]
            except Exception:  # a shrunk recipe may be ill-formed for the harness
                continue
            if still_bad(v):
                ops, best, reduced = cand, c, True
                n = max(n - 1, 2)
                break
        if not reduced:
            if chunk == 1:
                break
            n = min(len(ops), n * 2)
    best.cid = case.cid
    return best


# ----------------------------------------------------------------------------------------------
# main pipeline


def write_replay(prop: str, kind: str, payload: dict) -> Path:
    d = VERIF / "replays"
    d.mkdir(exist_ok=True)
    h = hashlib.sha1(json.dumps(payload, sort_keys=True, default=str).encode()).hexdigest()[:12]
    path = d / f"{prop}-{kind}-{h}.json"
    path.write_text(json.dumps(payload, indent=1, default=str))
    return path


def main(argv: List[str]) -> int:
    import argparse

    if argv[:1] == ["--setup"]:
        return setup()
    ap = argparse.ArgumentParser()
    ap.add_argument("prop")
    ap.add_argument("--tier", default=os.environ.get("VERIF_TIER", "quick"), choices=["quick", "thorough"])
    ap.add_argument("--replay")
    ap.add_argument("--budget", type=float, default=None, help="wall-clock budget in seconds")
    a = ap.parse_args(argv)
    prop = a.prop
    seed = int(os.environ.get("VERIF_SEED", "0") or 0)
    t0 = time.time()
    budget = a.budget or (1500 if a.tier == "thorough" else 420)
    work = VERIF / ".work" / f"{prop}-{os.getpid()}"
    work.mkdir(parents=True, exist_ok=True)
    ctx = Ctx(prop, a.tier, seed, work, t0 + budget)
    try:
        return _run(ctx, a.replay, t0)
    except Infra as e:
        print(f"INFRA-FAILURE property={prop}: {e}")
        return 2
    except subprocess.TimeoutExpired as e:
        print(f"TIMEOUT property={prop}: {e}")
        return 2
    finally:
        shutil.rmtree(work, ignore_errors=True)


def setup() -> int:
    """MANIFEST.setup_cmd: regenerate the generated Lean files from REPO and build everything."""
    gen = run_extract()
    for k, v in gen.items():
        print(f"extract {k}: {v}")
    ok, log = lake_build(["Upnp", "driver"], timeout=3000)
    print(log[-3000:] if not ok else "lake build: ok")
    return 0 if ok else 2


def leanchecker(prop: str) -> (bool, str):
    lock = _lake_lock()
    try:
        p = subprocess.run(["lake", "env", "leanchecker", f"Upnp.Props.{prop}"], cwd=LEAN, capture_output=True, text=True, timeout=900)
        return p.returncode == 0, (p.stdout + p.stderr)[-1500:]
    finally:
        lock.close()


def _run(ctx: Ctx, replay: Optional[str], t0: float) -> int:
    prop = ctx.prop
    sys.path.insert(0, str(VERIF))
    harness = importlib.import_module(f"harness.{prop.lower()}")
    broken: List[dict] = []  # broken obligations

    # 1. translator tie
    gen = run_extract()
    for mod, status in gen.items():
        if status != "ok" and mod in getattr(harness, "GEN_MODULES", list(gen)):
            broken.append({"obligation": f"extract:{mod}", "detail": status})

    # 2. theorems + driver
    ok_props, log_props = lake_build([f"Upnp.Props.{prop}"])
    thms = theorems_of(prop)
    if not ok_props:
        for name in failing_theorems(prop, log_props):
            broken.append({"obligation": f"theorem:{name}", "detail": log_props[-1500:]})
    ok_drv, log_drv = lake_build(["driver"])
    if not ok_drv:
        raise Infra("driver does not build:\n" + log_drv[-3000:])

    # 3. audit
    aud = {"ok": False, "axioms": {}, "forbidden": []}
    if ok_props:
        aud = audit(prop, ctx.work)
        if not aud["ok"]:
            broken.append({"obligation": "audit", "detail": json.dumps({k: aud.get(k) for k in ("forbidden", "bad_theorems", "log")})[:2000]})

    rechecked = None
    if ok_props and ctx.thorough and not replay:
        rechecked, lc_log = leanchecker(prop)
        if not rechecked:
            broken.append({"obligation": "leanchecker", "detail": lc_log})

    # 4. harness on the real code
    activate_repo()
    if replay:
        payload = json.loads(Path(replay).read_text())
        case = harness.run_recipe(ctx, payload["recipe"], cid="replay")
        v = run_driver(prop, [case], ctx.work)["replay"]
        print("\n".join(case.lines))
        print(f"replay verdict: corr={'ok' if v.corr_ok else 'MISMATCH'} judge={'ok' if v.judge_ok else 'FAIL'} {v.notes}")
        return 0 if (v.corr_ok and v.judge_ok) else 1

    try:
        cases: List[Case] = harness.generate(ctx)
        for c in cases:  # a case the harness could not describe is a harness failure, not a driver crash
            if not all(isinstance(ln, str) for ln in c.lines):
                raise TypeError(f"case {c.cid}: non-text line emitted by the harness: {[ln for ln in c.lines if not isinstance(ln, str)][:3]}")
    except Exception:  # noqa: BLE001 - the code under test made the harness itself fail
        import traceback

        tb = traceback.format_exc()
        path = write_replay(prop, "obligation", {
            "property": prop, "kind": "broken-obligation", "seed": ctx.seed, "tier": ctx.tier,
            "broken_obligations": broken + [{"obligation": f"harness:{prop}", "detail": tb[-4000:]}],
            "note": "an exception escaped the harness while it was driving the real code; the correspondence "
                    "could not be established (on the unchanged tree this never happens)",
        })
        print(tb[-1500:])
        print(f"VIOLATION property={prop} replay={path} no-failing-input-found")
        return 1
    verdicts = run_driver(prop, cases, ctx.work)
    judge_fail = [c for c in cases if not verdicts[c.cid].judge_ok]
    corr_fail = [c for c in cases if verdicts[c.cid].judge_ok and not verdicts[c.cid].corr_ok]
    if corr_fail:
        broken.append({"obligation": f"corr:{prop}", "detail": f"{len(corr_fail)} case(s); first: {verdicts[corr_fail[0].cid].notes[:800]}"})

    # 5. failing-input search when an obligation is broken and no judged failure exists yet
    searched = 0
    if broken and not judge_fail and ctx.tier == "quick" and ctx.time_left() > 60:
        sctx = Ctx(prop, "thorough", ctx.seed, ctx.work, ctx.deadline)
        sctx.search = True  # type: ignore[attr-defined]
        more = harness.generate(sctx)
        sv = run_driver(prop, more, ctx.work)
        searched = len(more)
        for c in more:
            c.cid = "s" + c.cid
        sv = {"s" + k: Verdict("s" + k, v.corr_ok, v.judge_ok, v.notes) for k, v in sv.items()}
        verdicts.update(sv)
        judge_fail = [c for c in more if not sv[c.cid].judge_ok]
        cases = cases + more

    # 6. decision
    findings = load_findings(prop)
    violations: List[str] = []
    known_hit: Dict[str, dict] = {}
    reported = 0
    seen_sigs = set()
    for c in judge_fail:
        v = verdicts[c.cid]
        sig = harness.signature(c, v) if hasattr(harness, "signature") else v.notes
        kf = match_finding(findings, sig)
        if kf:
            known_hit[kf["id"]] = kf
            continue
        key = re.sub(r"\d+", "N", sig)[:200]
        if key in seen_sigs or reported >= 5:
            continue
        seen_sigs.add(key)
        reported += 1
        small = shrink(harness, ctx, c, lambda vv: not vv.judge_ok)
        sv_ = run_driver(prop, [small], ctx.work)[small.cid] if small is not c else v
        path = write_replay(prop, "judge", {
            "property": prop, "kind": "judged-violation", "seed": ctx.seed, "tier": ctx.tier,
            "signature": sig, "notes": sv_.notes, "recipe": small.recipe, "lines": small.lines,
            "broken_obligations": [b["obligation"] for b in broken],
        })
        violations.append(f"VIOLATION property={prop} replay={path}")
    for kf in known_hit.values():
        print(f"KNOWN-FINDING: property={prop} {kf['id']} {kf['what']}")
    if not violations and broken:
        first = None
        if corr_fail:
            first = shrink(harness, ctx, corr_fail[0], lambda vv: not vv.corr_ok)
        path = write_replay(prop, "obligation", {
            "property": prop, "kind": "broken-obligation", "seed": ctx.seed, "tier": ctx.tier,
            "broken_obligations": broken,
            "searched_cases": len(cases),
            "mismatching_case": None if first is None else {"recipe": first.recipe, "lines": first.lines, "notes": run_driver(prop, [first], ctx.work)[first.cid].notes},
        })
        violations.append(f"VIOLATION property={prop} replay={path} no-failing-input-found")

    # 7. evidence
    distinct = {}
    tagcount: Dict[str, int] = {}
    for c in cases:
        h = hashlib.sha1("\n".join(c.lines).encode()).hexdigest()
        distinct.setdefault(h, c.nontrivial)
        for t in c.tags:
            tagcount[t] = tagcount.get(t, 0) + 1
    pins = [m for m in getattr(harness, "GEN_MODULES", [])]
    n_obl = len(thms) + len(pins) + 1  # + correspondence
    n_dis = (len(thms) if ok_props and aud["ok"] else 0) + sum(1 for m in pins if gen.get(m) == "ok") + (0 if corr_fail else 1)
    samples = [{"case": c.cid, "lines": c.lines[:12], "verdict": vars(verdicts[c.cid])} for c in cases[:: max(1, len(cases) // 3)][:3]]
    ev = {
        "property_id": prop,
        "tier": ctx.tier,
        "seed": ctx.seed,
        "level": "proof",
        "coverage": {
            "obligations": n_obl,
            "discharged": n_dis,
            "checker_cmd": f"cd lean && lake build Upnp.Props.{prop} && lake env lean <#print axioms of each theorem>",
            "trusted_base": TRUSTED_BASE + list(getattr(harness, "TRUSTED", [])),
            "theorems": {t: aud["axioms"].get(t) for t in thms},
            "generated_pins": {m: gen.get(m) for m in pins},
            "broken_obligations": [b["obligation"] for b in broken],
            "leanchecker_rechecked": rechecked,
            "evaluations": len(cases),
            "distinct_nontrivial": sum(1 for v in distinct.values() if v),
            "traces_validated_against_impl": len(cases) - len(corr_fail) - len(judge_fail),
            "rule": getattr(harness, "RULE", ""),
            "samples": samples,
            "generator_distribution": dict(sorted(tagcount.items())),
            "failing_input_search_cases": searched,
            "exhaustive": bool(getattr(harness, "EXHAUSTIVE", {}).get(ctx.tier, False)),
        },
        "assumptions": list(getattr(harness, "ASSUMPTIONS", [])),
        "wall_s": round(time.time() - t0, 2),
        "violations": len(violations),
    }
    if hasattr(harness, "extra_evidence"):
        ev["coverage"].update(harness.extra_evidence(ctx, cases, verdicts))
    # VERIF_EVIDENCE_DIR: used by mutation self-tests on scratch trees so that they do not overwrite
    # the evidence of runs against /repo itself
    evdir = Path(os.environ.get("VERIF_EVIDENCE_DIR") or (VERIF / "evidence"))
    evdir.mkdir(parents=True, exist_ok=True)
    (evdir / f"{prop}.json").write_text(json.dumps(ev, indent=1, default=str))

    for line in violations:
        print(line)
    print(f"{prop} {ctx.tier} seed={ctx.seed}: theorems={len(thms)} build={'ok' if ok_props else 'BROKEN'} cases={len(cases)} "
          f"corr_mismatch={len(corr_fail)} judge_fail={len(judge_fail)} known={len(known_hit)} wall={time.time()-t0:.1f}s")
    return 1 if violations else 0
